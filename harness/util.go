package main

import (
	"crypto/sha256"
	"crypto/tls"
	"encoding/hex"
	"hash"
	"net"

	rpc "github.com/hslam/rpc"
)

type tlsConfigT = tls.Config

func serverTLS() *tls.Config { return rpc.DefalutServerTLSConfig() }
func clientTLS() *tls.Config { return rpc.SkipVerifyTLSConfig() }

// freeTCPAddr asks the kernel for an unused loopback port (never handed out twice in a row).
func freeTCPAddr() string {
	l, err := net.Listen("tcp", "127.0.0.1:0")
	if err != nil {
		return "127.0.0.1:0"
	}
	a := l.Addr().String()
	l.Close()
	return a
}

type dig struct{ h hash.Hash }

func newDigest() *dig       { return &dig{sha256.New()} }
func (d *dig) add(s string) { d.h.Write([]byte(s)); d.h.Write([]byte{0}) }
func (d *dig) hex() string  { return hex.EncodeToString(d.h.Sum(nil))[:32] }
