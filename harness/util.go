package main

import (
	"crypto/sha256"
	"crypto/tls"
	"encoding/hex"
	"hash"
	"net"
	"os"
	"strconv"
	"sync/atomic"

	rpc "github.com/hslam/rpc"
)

type tlsConfigT = tls.Config

func serverTLS() *tls.Config { return rpc.DefalutServerTLSConfig() }
func clientTLS() *tls.Config { return rpc.SkipVerifyTLSConfig() }

// freeTCPAddr hands out a loopback port for a server of this process. Asking the kernel for "an unused port" (listen on :0, close,
// listen again) is not safe between the worker processes that run side by side: two of them were given the same port, and a
// client then talked to the other worker's server. Ports are therefore taken from below the ephemeral range (no outgoing
// connection ever occupies them), from a window that depends on the process id, never twice within a process, and each is
// probed before use; the caller still checks that its own Listen succeeded.
var portCounter int64

func freeTCPAddr() string {
	base := (os.Getpid() % 110) * 200
	for try := 0; try < 400; try++ {
		k := int(atomic.AddInt64(&portCounter, 1))
		port := 10000 + (base+k)%22000
		a := "127.0.0.1:" + strconv.Itoa(port)
		l, err := net.Listen("tcp", a)
		if err != nil {
			continue
		}
		l.Close()
		return a
	}
	return "127.0.0.1:0"
}

type dig struct{ h hash.Hash }

func newDigest() *dig       { return &dig{sha256.New()} }
func (d *dig) add(s string) { d.h.Write([]byte(s)); d.h.Write([]byte{0}) }
func (d *dig) hex() string  { return hex.EncodeToString(d.h.Sum(nil))[:32] }
