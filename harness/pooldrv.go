package main

import (
	"bufio"
	"encoding/json"
	"flag"
	"fmt"
	"os"
	"strings"

	"github.com/hslam/rpc"
)

// poolstruct: every history written out by TLC for spec/PoolStruct.tla (lines <<"HIST", "<json>">>) is stepped through the
// real connQueue / conns (drivers rpc.VerifQueue / rpc.VerifConns); after each operation the result and the observers'
// answers must be the ones the specification computed.

type poolStep struct {
	Op    string `json:"op"`
	Arg   int    `json:"arg"`
	Res   int    `json:"res"`
	Front int    `json:"front"`
	Rear  int    `json:"rear"`
	Len   int    `json:"len"`
	List  []int  `json:"list"`
}

func init() { commands["poolstruct"] = cmdPoolStruct }

func cmdPoolStruct(args []string) {
	fs := flag.NewFlagSet("poolstruct", flag.ExitOnError)
	in := fs.String("in", "", "TLC output with HIST lines")
	capQ := fs.Int("cap", 2, "queue capacity (the model's Cap)")
	out := fs.String("out", "", "result JSON")
	fs.Parse(args)
	f, err := os.Open(*in)
	if err != nil {
		fmt.Fprintln(os.Stderr, err)
		os.Exit(2)
	}
	defer f.Close()
	sc := bufio.NewScanner(f)
	sc.Buffer(make([]byte, 1<<20), 1<<24)
	type result struct {
		Histories int            `json:"histories"`
		Steps     int            `json:"steps"`
		Ops       map[string]int `json:"ops"`
		Failures  []string       `json:"failures"`
	}
	res := result{Ops: map[string]int{}}
	for sc.Scan() {
		line := sc.Text()
		if !strings.HasPrefix(line, "<<\"HIST\", ") {
			continue
		}
		body := strings.TrimSuffix(strings.TrimPrefix(line, "<<\"HIST\", "), ">>")
		var js string
		if err := json.Unmarshal([]byte(body), &js); err != nil {
			fmt.Fprintln(os.Stderr, "bad HIST line:", err)
			os.Exit(2)
		}
		var steps []poolStep
		if err := json.Unmarshal([]byte(js), &steps); err != nil {
			fmt.Fprintln(os.Stderr, "bad history:", err)
			os.Exit(2)
		}
		res.Histories++
		if msg := runPoolHistory(steps, *capQ, res.Ops); msg != "" {
			if len(res.Failures) < 20 {
				res.Failures = append(res.Failures, msg+" history="+js)
			}
		}
		res.Steps += len(steps)
	}
	data, _ := json.Marshal(res)
	if *out != "" {
		os.WriteFile(*out, data, 0644)
	} else {
		fmt.Println(string(data))
	}
}

func runPoolHistory(steps []poolStep, capQ int, ops map[string]int) (msg string) {
	defer func() {
		if r := recover(); r != nil {
			msg = fmt.Sprintf("panic: %v", r)
		}
	}()
	q := rpc.NewVerifQueue(capQ)
	c := rpc.NewVerifConns()
	for i, s := range steps {
		ops[s.Op]++
		got := 0
		switch s.Op {
		case "enq":
			if q.Enqueue(s.Arg) {
				got = 1
			}
		case "deq":
			got = q.Dequeue()
		case "app":
			c.Append(s.Arg)
		case "del":
			c.Delete(s.Arg)
		case "cur":
			got = c.Cursor()
		default:
			return "unknown op " + s.Op
		}
		if got != s.Res {
			return fmt.Sprintf("step %d %s(%d): result %d, specification %d", i+1, s.Op, s.Arg, got, s.Res)
		}
		if q.Front() != s.Front || q.Rear() != s.Rear || q.Length() != s.Len {
			return fmt.Sprintf("step %d %s(%d): front/rear/len %d/%d/%d, specification %d/%d/%d", i+1, s.Op, s.Arg, q.Front(), q.Rear(), q.Length(), s.Front, s.Rear, s.Len)
		}
		l := c.List()
		if len(l) != len(s.List) {
			return fmt.Sprintf("step %d %s(%d): list %v, specification %v", i+1, s.Op, s.Arg, l, s.List)
		}
		for k := range l {
			if l[k] != s.List[k] {
				return fmt.Sprintf("step %d %s(%d): list %v, specification %v", i+1, s.Op, s.Arg, l, s.List)
			}
		}
	}
	return ""
}
