package main

// Driver for the real rpc.Client over a scripted RoundTripper: target health,
// probe results, call completion and detector passes are controlled by the
// schedule (a TLC behaviour of Client.tla); every routing decision, waiter
// event, health check and estimate update is recorded from the hooks, and the
// address each call actually reached is recorded by the RoundTripper itself.

import (
	"context"
	"encoding/json"
	"flag"
	"fmt"
	"os"
	"strings"
	"sync"
	"time"

	rpc "github.com/hslam/rpc"
)

type CliCfg struct {
	Addrs   []string `json:"Addrs"`
	Callers []int    `json:"Callers"`
	Policy  string   `json:"Policy"`
	Init    []string `json:"Init"`   // initial targets
	Health  []string `json:"Health"` // initially healthy addresses
	Form    string   `json:"Form"`   // call form used by the callers: call / ctx / go / rt / ping / stream
}

type CStep struct {
	A    string   `json:"a"`
	K    int      `json:"k"`
	Addr string   `json:"addr"`
	Set  []string `json:"set"`
	G    int      `json:"g"`
	N    int      `json:"n"`
}

type CSchedule struct {
	Name  string  `json:"name"`
	Cfg   CliCfg  `json:"cfg"`
	Steps []CStep `json:"steps"`
}

type fakeRT struct {
	r         *CliRun
	mu        sync.Mutex
	health    map[string]bool
	pingGate  *gate
	callGate  *gate
	closed    int
	closeHold chan struct{} // non-nil: Close blocks until it is closed
}

type fakeStream struct{}

func (fakeStream) WriteMessage(m interface{}) error          { return nil }
func (fakeStream) ReadMessage(b []byte, m interface{}) error { return rpc.ErrStreamShutdown }
func (fakeStream) Close() error                              { return nil }

func (f *fakeRT) enter(addr, form string) error { return f.enterCtx(nil, addr, form) }

// enterCtx: like a Transport, the scripted RoundTripper gives a call up when its context ends
func (f *fakeRT) enterCtx(ctx context.Context, addr, form string) error {
	k := 0
	if v, ok := f.r.gidK.Load(goid()); ok {
		k = v.(int)
	}
	f.r.add(&Ev{Ev: "rt.call", C: k, A: f.r.addrIdx(addr), K: form, Seq: -1, Sent: -1})
	if k != 0 && f.callGate != nil {
		if ctx != nil {
			if _, ok := f.callGate.waitOr(key(k), ctx.Done()); !ok {
				return ctx.Err()
			}
		} else {
			f.callGate.wait(key(k))
		}
	}
	f.mu.Lock()
	ok := addr != "" && f.health[addr]
	f.mu.Unlock()
	if !ok {
		return rpc.ErrDial
	}
	return nil
}

func (f *fakeRT) RoundTrip(addr string, call *rpc.Call) *rpc.Call {
	if call.Done == nil {
		call.Done = make(chan *rpc.Call, 10)
	}
	call.Error = f.enter(addr, "rt")
	select {
	case call.Done <- call:
	default:
	}
	return call
}
func (f *fakeRT) Go(addr, serviceMethod string, args interface{}, reply interface{}, done chan *rpc.Call) *rpc.Call {
	if done == nil {
		done = make(chan *rpc.Call, 10)
	}
	call := &rpc.Call{ServiceMethod: serviceMethod, Args: args, Reply: reply, Done: done}
	call.Error = f.enter(addr, "go")
	select {
	case done <- call:
	default:
	}
	return call
}
func (f *fakeRT) Call(addr, serviceMethod string, args interface{}, reply interface{}) error {
	return f.enter(addr, "call")
}
func (f *fakeRT) CallWithContext(ctx context.Context, addr string, serviceMethod string, args interface{}, reply interface{}) error {
	return f.enterCtx(ctx, addr, "ctx")
}
func (f *fakeRT) NewStream(addr, key string) (rpc.Stream, error) {
	if err := f.enter(addr, "stream"); err != nil {
		return nil, err
	}
	return fakeStream{}, nil
}
func (f *fakeRT) Ping(addr string) error {
	// probes of the detector (no caller identity) are gated per address; a caller's Ping is a call
	if _, ok := f.r.gidK.Load(goid()); ok {
		return f.enter(addr, "ping")
	}
	f.r.add(&Ev{Ev: "rt.probe", A: f.r.addrIdx(addr), Seq: -1, Sent: -1})
	if f.pingGate != nil {
		f.pingGate.wait(addr)
	}
	f.mu.Lock()
	ok := f.health[addr]
	f.mu.Unlock()
	if !ok {
		return rpc.ErrDial
	}
	return nil
}
func (f *fakeRT) Close() error {
	f.mu.Lock()
	f.closed++
	hold := f.closeHold
	f.mu.Unlock()
	if hold != nil {
		<-hold // Client.Close is inside Transport.Close, holding the Client's lock
	}
	return nil
}

type ccaller struct {
	k       int
	running bool
	done    chan struct{}
	err     error
	n       int
	arr0    int // arrivals of this caller at the RoundTripper gate before its current call
	cancel  context.CancelFunc
}

type CliRun struct {
	*Run
	cfg        CliCfg
	c          *rpc.Client
	rt         *fakeRT
	detGate    *gate
	gidK       sync.Map
	callers    map[int]*ccaller
	notes      []string
	waitMs     int
	t0         time.Time
	nupd       int
	ptrGen     map[interface{}]int // *target -> generation (Update count when first seen)
	waitSeq    map[int]int         // waiter seq -> caller
	lastEwma   map[interface{}][2]uint64
	updN       int
	updPrev    int
	dirMu      sync.Mutex
	director   string
	overlapped bool        // one Close step of this run has been executed overlapping the calls behind it
	skipRoute  map[int]int // caller -> Route steps already performed that way
}

func (r *CliRun) rtClosed() int {
	r.rt.mu.Lock()
	defer r.rt.mu.Unlock()
	return r.rt.closed
}

func (r *CliRun) addrIdx(a string) int {
	for i, x := range r.cfg.Addrs {
		if x == a {
			return i + 1
		}
	}
	return 0
}
func (r *CliRun) addrIdxHash(h uint64) int {
	for i, x := range r.cfg.Addrs {
		if rpc.VerifStr(x) == h {
			return i + 1
		}
	}
	return 0
}

var cliCreateMu sync.Mutex

func newCliRunGated(name string, cfg CliCfg) *CliRun {
	r := &CliRun{Run: newRun(name), cfg: cfg, callers: map[int]*ccaller{}, skipRoute: map[int]int{}, waitMs: 400, t0: time.Now(),
		ptrGen: map[interface{}]int{}, waitSeq: map[int]int{}, lastEwma: map[interface{}][2]uint64{}}
	r.Run.onHook = r.bind
	r.detGate = newGate()
	r.rt = &fakeRT{r: r, health: map[string]bool{}, pingGate: newGate(), callGate: newGate()}
	for _, a := range cfg.Health {
		r.rt.health[a] = true
	}
	gatef := func(ev string, sub interface{}) {
		if ev == "k.detect.gate" {
			r.detGate.wait("d")
		}
	}
	// The detector goroutine starts inside NewClient and may make its first pass - over an empty target map, which does
	// nothing - before the constructor returns: that pass is neither recorded nor gated. (Earlier the harness "adopted" an
	// unknown *Client at its first hook call; a hook of some other client arriving in that window was adopted as well and
	// its events ended up in the wrong trace.)
	cl := rpc.NewClient(nil)
	route(cl, r.Run)
	setGate(cl, gatef)
	cl.Transport = r.rt
	switch cfg.Policy {
	case "random":
		cl.Scheduling = rpc.RandomScheduling
	case "lt":
		cl.Scheduling = rpc.LeastTimeScheduling
	default:
		cl.Scheduling = rpc.RoundRobinScheduling
	}
	cl.Tick = 30 * time.Millisecond
	cl.Director = func() string {
		r.dirMu.Lock()
		defer r.dirMu.Unlock()
		return r.director
	}
	r.c = cl
	return r
}

// bind resolves identities at hook time (under Run.mu).
func (r *CliRun) bind(run *Run, e *Ev) {
	if k, ok := r.gidK.Load(e.gid); ok {
		e.C = k.(int)
	}
	ms := int(time.Since(r.t0) / time.Millisecond)
	switch e.Ev {
	case "k.sched":
		if e.sub != nil {
			route(e.sub, run)
		}
		// rawA = kind, rawB = pos, sub = *target
		e.B = int(e.rawA)
		e.Seq = int(e.rawB)
		e.A = r.addrIdx(rpc.VerifTargetAddr(e.sub))
		e.S = ms
	case "k.route.director":
		e.A = r.addrIdxHash(e.rawA)
	case "k.wait":
		e.Seq = int(e.rawA)
		r.waitSeq[e.Seq] = e.C
	case "k.wake", "k.close.wake", "k.timeout":
		e.Seq = int(e.rawA)
		e.C = r.waitSeq[e.Seq]
		e.B = int(e.rawB)
	case "k.waiter.ret":
		e.Seq = int(e.rawA)
	case "k.probe":
		route(e.sub, run)
		if _, ok := r.ptrGen[e.sub]; !ok {
			r.ptrGen[e.sub] = r.nupd
		}
		e.A = r.addrIdx(rpc.VerifTargetAddr(e.sub))
		e.B = r.ptrGen[e.sub]
	case "k.check":
		e.A = r.addrIdx(rpc.VerifTargetAddr(e.sub))
		g, ok := r.ptrGen[e.sub]
		if !ok {
			g = r.nupd
		}
		e.B = g
		e.S = int(e.rawA)   // alive
		e.Seq = int(e.rawB) // list length
	case "k.update":
		r.nupd++
		e.A = int(e.rawA)
	case "k.ewma.in":
		r.lastEwma[e.sub] = [2]uint64{e.rawA, e.rawB}
	case "k.ewma.out":
		e.A = r.addrIdx(rpc.VerifTargetAddr(e.sub))
		g, ok := r.ptrGen[e.sub]
		if !ok {
			g = r.nupd
			r.ptrGen[e.sub] = g
		}
		e.B = g
		e.S = int(e.rawB) // alive flag
		const scale = 10000
		e.Seq = int(e.rawA / scale) // resulting estimate, scaled
		// the documented exponential moving average (Alpha = 0.8 unless configured), first sample replaces the maximum
		in := r.lastEwma[e.sub]
		old, sample := int64(in[0]), int64(in[1])
		maxLat := int64(time.Minute)
		var want int64
		switch {
		case e.rawB == 0:
			want = maxLat
		case old >= maxLat:
			want = sample
		default:
			want = int64(float64(old)*0.8 + float64(sample)*(1-0.8))
		}
		e.Sent = 1
		if d := int64(e.rawA) - want; d > 1 || d < -1 {
			e.Sent = 0
		}
	case "k.fb":
		e.A = int(e.rawA)
	}
}

func (r *CliRun) note(f string, a ...interface{}) {
	r.mu.Lock()
	r.notes = append(r.notes, fmt.Sprintf(f, a...))
	r.mu.Unlock()
}

func (r *CliRun) await(what string, ms int, cond func() bool) bool {
	deadline := time.Now().Add(time.Duration(ms) * time.Millisecond)
	for {
		if cond() {
			return true
		}
		if time.Now().After(deadline) {
			r.note("diverged: %s not observed", what)
			return false
		}
		time.Sleep(100 * time.Microsecond)
	}
}

func (r *CliRun) evCount(pred func(e *Ev) bool) int {
	r.Run.mu.Lock()
	defer r.Run.mu.Unlock()
	n := 0
	for _, e := range r.Run.evs {
		if pred(e) {
			n++
		}
	}
	return n
}

func (r *CliRun) finished(k int) bool {
	c := r.callers[k]
	if c == nil || !c.running {
		return true
	}
	select {
	case <-c.done:
		c.running = false
		return true
	default:
		return false
	}
}

func errKind(err error) int {
	switch err {
	case nil:
		return 0
	case rpc.ErrShutdown:
		return 1
	case rpc.ErrTimeout:
		return 2
	case rpc.ErrDial:
		return 3
	case context.Canceled, context.DeadlineExceeded:
		return 5
	}
	return 4
}

func (r *CliRun) startCall(k int, timeoutSoon bool) {
	n0 := r.startCallNoWait(k, timeoutSoon)
	if n0 < 0 {
		return
	}
	r.await(fmt.Sprintf("routing of caller %d", k), r.waitMs, func() bool {
		return r.finished(k) || r.evCount(func(e *Ev) bool {
			return e.C == k && (e.Ev == "k.sched" || e.Ev == "k.wait" || e.Ev == "k.route.closed" || e.Ev == "k.route.director" || e.Ev == "k.wait.closed")
		}) > n0
	})
}

// startCallNoWait starts the call of caller k and returns without waiting for its routing decision (-1: not started)
func (r *CliRun) startCallNoWait(k int, timeoutSoon bool) int {
	c := r.callers[k]
	if c == nil {
		c = &ccaller{k: k}
		r.callers[k] = c
	}
	if c.running && !r.finished(k) {
		r.note("caller %d still busy", k)
		return -1
	}
	c.running = true
	c.n++
	c.done = make(chan struct{})
	c.arr0 = r.rt.callGate.arrivedCount(key(k))
	if timeoutSoon {
		r.c.DialTimeout = 60 * time.Millisecond
	} else {
		r.c.DialTimeout = 20 * time.Second
	}
	form := r.cfg.Form
	if form == "" {
		form = "call"
	}
	n0 := r.evCount(func(e *Ev) bool {
		return e.C == k && (e.Ev == "k.sched" || e.Ev == "k.wait" || e.Ev == "k.route.closed" || e.Ev == "k.route.director" || e.Ev == "k.wait.closed")
	})
	r.add(&Ev{Ev: "api.call", C: k, K: form, Seq: -1, Sent: -1})
	cctx, ccancel := context.WithCancel(context.Background())
	c.cancel = ccancel
	ready := make(chan struct{})
	go func() {
		g := goid()
		r.gidK.Store(g, k)
		close(ready)
		var err error
		switch form {
		case "ctx":
			err = r.c.CallWithContext(cctx, "S.M", nil, nil)
		case "go":
			call := r.c.Go("S.M", nil, nil, make(chan *rpc.Call, 1))
			<-call.Done
			err = call.Error
		case "gonil":
			// Go with a nil done channel ("Go will allocate a new channel"): the returned call must be signalled on it
			call := r.c.Go("S.M", nil, nil, nil)
			<-call.Done // (a nil Done blocks forever: the run then ends with this caller still blocked, which is reported)
			err = call.Error
		case "rt":
			call := &rpc.Call{ServiceMethod: "S.M", Done: make(chan *rpc.Call, 1)}
			r.c.RoundTrip(call)
			<-call.Done
			err = call.Error
		case "ping":
			err = r.c.Ping()
		case "stream":
			_, err = r.c.NewStream("S.M")
		default:
			err = r.c.Call("S.M", nil, nil)
		}
		r.gidK.Delete(g)
		c.err = err
		r.add(&Ev{Ev: "api.ret", C: k, A: errKind(err), K: form, Seq: -1, Sent: -1})
		ccancel()
		close(c.done)
	}()
	<-ready
	return n0
}

func (r *CliRun) exec(st CStep, next []CStep) {
	switch st.A {
	case "Update":
		r.add(&Ev{Ev: "api.update", K: strings.Join(st.Set, ","), Seq: -1, Sent: -1})
		// the same set, written with duplicates and empty strings in varying places (they are to be ignored)
		r.updN++
		args := append([]string(nil), st.Set...)
		switch r.updN % 4 {
		case 1:
			args = append(args, "")
		case 2:
			if len(args) > 0 {
				args = append(args, args[0])
			}
		case 3:
			args = append([]string{""}, args...)
			if len(args) > 1 {
				args = append(args, args[1], "")
			}
		}
		// pad to the size of the previous argument list now and then (same length, different content)
		for r.updN%3 == 0 && len(args) < r.updPrev && len(st.Set) > 0 {
			args = append(args, st.Set[0])
		}
		r.updPrev = len(args)
		r.c.Update(args...)
		r.add(&Ev{Ev: "api.update.ret", Seq: -1, Sent: -1})
	case "Detect":
		n0 := r.evCount(func(e *Ev) bool { return e.Ev == "k.detect" })
		if r.await("detector at its gate", 400, func() bool { return r.detGate.arrivedCount("d") > n0 }) {
			r.detGate.release("d", 0)
			r.await("Detect", r.waitMs, func() bool { return r.evCount(func(e *Ev) bool { return e.Ev == "k.detect" }) > n0 })
			time.Sleep(200 * time.Microsecond) // probes started by the pass reach their gate
		}
	case "ProbeDone":
		n0 := r.evCount(func(e *Ev) bool { return e.Ev == "k.check" })
		if r.rt.pingGate.arrivedCount(st.Addr) > 0 {
			r.rt.pingGate.release(st.Addr, 0)
			r.await("ProbeDone", r.waitMs, func() bool { return r.evCount(func(e *Ev) bool { return e.Ev == "k.check" }) > n0 })
		} else {
			r.note("diverged: no probe of %s in flight", st.Addr)
		}
	case "Route":
		if r.skipRoute[st.K] > 0 { // already started, overlapping the Close step before it
			r.skipRoute[st.K]--
			break
		}
		// will this caller time out later in the schedule while waiting?
		soon := false
		for _, n := range next {
			if n.K == st.K && n.A == "Timeout" {
				soon = true
				break
			}
			if n.K == st.K && (n.A == "Route" || n.A == "WokenPick" || n.A == "CallDone") {
				break
			}
		}
		r.startCall(st.K, soon)
	case "WokenPick":
		r.await("WokenPick", r.waitMs, func() bool {
			return r.finished(st.K) || r.evCount(func(e *Ev) bool { return e.C == st.K && e.Ev == "k.sched" }) > 0
		})
	case "Timeout":
		r.await("Timeout", 2000, func() bool { return r.finished(st.K) })
	case "Close":
		// Close holds the Client's lock while it closes the Transport. Calls the schedule places right behind Close are
		// started while Close is still in there: they are linearised after it (they block on the lock), which is the order
		// the model gives them; each must fail at once with ErrShutdown.
		var during []CStep
		for _, n := range next {
			if n.A != "Route" {
				break
			}
			during = append(during, n)
		}
		// (only while a Fallback period is running: then a caller goes straight to the waiter table, whose registration is what
		// must be ordered with Close by the lock; a caller that still consults the live list may legitimately be served)
		fbOn := r.evCount(func(e *Ev) bool { return e.Ev == "k.fb" && e.A == 1 }) > r.evCount(func(e *Ev) bool { return e.Ev == "k.fb" && e.A == 0 })
		if len(during) == 0 || r.overlapped || !fbOn {
			r.c.Close()
			break
		}
		r.overlapped = true
		hold := make(chan struct{})
		r.rt.mu.Lock()
		r.rt.closeHold = hold
		r.rt.mu.Unlock()
		n0 := r.rtClosed()
		closed := make(chan struct{})
		go func() { r.c.Close(); close(closed) }()
		r.await("Close reaching the Transport", r.waitMs, func() bool { return r.rtClosed() > n0 })
		for _, n := range during {
			r.startCallNoWait(n.K, false)
			r.skipRoute[n.K]++
		}
		time.Sleep(2 * time.Millisecond) // the callers run into the lock
		r.rt.mu.Lock()
		r.rt.closeHold = nil
		r.rt.mu.Unlock()
		close(hold)
		<-closed
		for _, n := range during {
			k := n.K
			r.await(fmt.Sprintf("routing decision of caller %d (started while Close was running)", k), r.waitMs, func() bool {
				return r.finished(k) || r.evCount(func(e *Ev) bool {
					return e.C == k && (e.Ev == "k.sched" || e.Ev == "k.wait" || e.Ev == "k.route.closed" || e.Ev == "k.route.director" || e.Ev == "k.wait.closed")
				}) > 0
			})
		}
	case "CallDone":
		// the routing decision has been taken; the call reaches the RoundTripper a moment later (or returns without it)
		if c := r.callers[st.K]; c != nil {
			r.await("call at the RoundTripper", 300, func() bool { return r.finished(st.K) || r.rt.callGate.arrivedCount(key(st.K)) > c.arr0 })
		}
		if c := r.callers[st.K]; c != nil && r.rt.callGate.arrivedCount(key(st.K)) > c.arr0 {
			r.rt.callGate.release(key(st.K), 0)
		}
		r.await("CallDone", r.waitMs, func() bool { return r.finished(st.K) })
	case "CtxEnd":
		// the caller's context ends while its call is with the RoundTripper: the call must return at once
		c := r.callers[st.K]
		if c == nil || c.cancel == nil {
			r.note("diverged: no call of %d to cancel", st.K)
			break
		}
		r.await("call at the RoundTripper", 300, func() bool { return r.finished(st.K) || r.rt.callGate.arrivedCount(key(st.K)) > c.arr0 })
		if r.finished(st.K) || r.rt.callGate.arrivedCount(key(st.K)) <= c.arr0 {
			r.note("diverged: call of %d is not with the RoundTripper", st.K)
			break
		}
		r.add(&Ev{Ev: "env.cancel", C: st.K, Seq: -1, Sent: -1})
		c.cancel()
		if !r.await("return of the cancelled call", 1000, func() bool { return r.finished(st.K) }) {
			r.add(&Ev{Ev: "obs.cancelstuck", C: st.K, Seq: -1, Sent: -1})
			r.rt.callGate.release(key(st.K), 0)
			r.await("CallDone", r.waitMs, func() bool { return r.finished(st.K) })
		}
	case "Again":
	case "FallbackBegin":
		r.c.Fallback(45 * time.Millisecond)
	case "FallbackEnd":
		n0 := r.evCount(func(e *Ev) bool { return e.Ev == "k.fb" && e.A == 0 })
		r.await("FallbackEnd", 500, func() bool { return r.evCount(func(e *Ev) bool { return e.Ev == "k.fb" && e.A == 0 }) > n0 })
	case "Flip":
		r.rt.mu.Lock()
		r.rt.health[st.Addr] = !r.rt.health[st.Addr]
		h := r.rt.health[st.Addr]
		r.rt.mu.Unlock()
		b := 0
		if h {
			b = 1
		}
		r.add(&Ev{Ev: "env.flip", A: r.addrIdx(st.Addr), B: b, Seq: -1, Sent: -1})
	case "SetDirector":
		r.dirMu.Lock()
		r.director = st.Addr
		r.dirMu.Unlock()
		r.add(&Ev{Ev: "api.director", A: r.addrIdx(st.Addr), Seq: -1, Sent: -1})
	case "TickElapsed":
		time.Sleep(r.c.Tick + 3*time.Millisecond)
	}
}

func (r *CliRun) finalize() {
	r.rt.callGate.openAll(0)
	r.rt.pingGate.openAll(0)
	r.detGate.openAll(0)
	// callers still waiting are released by Close (must return at once)
	r.add(&Ev{Ev: "obs.closing", Seq: -1, Sent: -1})
	t := time.Now()
	r.c.Close()
	hung := 0
	for k := range r.callers {
		k := k
		if !r.await("caller return after Close", 1500, func() bool { return r.finished(k) }) {
			hung++
		}
	}
	r.add(&Ev{Ev: "obs.end", A: hung, B: int(time.Since(t) / time.Millisecond), Seq: -1, Sent: -1})
	unroute(r.c)
	setGate(r.c, nil)
}

func (r *CliRun) traceFolded() []*Ev {
	evs := r.snapshot()
	// wake events are emitted inside the critical section of the detector pass / check / Close that causes them:
	// fold them into that event (detector: wakes follow k.detect; check: wakes precede k.check; Close: follow k.close)
	var out []*Ev
	lastDetect := map[uint64]*Ev{}
	lastClose := map[uint64]*Ev{}
	pend := map[uint64][]*Ev{}
	ended := false
	for _, e := range evs {
		if ended {
			// the observation ends with obs.end; what goroutines of the closed Client still emit until the run is taken off the
			// recorder is cut off at arbitrary points and is not part of the trace
			break
		}
		if e.Ev == "obs.end" {
			ended = true
		}
		switch e.Ev {
		case "k.detect":
			lastDetect[e.gid] = e
			out = append(out, e)
		case "k.wake":
			if d := lastDetect[e.gid]; d != nil {
				d.Calls = append(d.Calls, e.C)
			} else {
				pend[e.gid] = append(pend[e.gid], e)
			}
		case "k.check":
			for _, w := range pend[e.gid] {
				e.Calls = append(e.Calls, w.C)
			}
			delete(pend, e.gid)
			out = append(out, e)
		case "k.close":
			lastClose[e.gid] = e
			out = append(out, e)
		case "k.close.wake":
			if c := lastClose[e.gid]; c != nil {
				c.Calls = append(c.Calls, e.C)
			} else {
				out = append(out, e)
			}
		case "k.probe":
			// started by the detector pass, under its lock: the set of probed addresses goes into the pass event
			if d := lastDetect[e.gid]; d != nil && e.A > 0 {
				d.M |= 1 << uint(e.A-1)
			}
		case "k.ewma.in", "k.waiter.ret", "rt.probe":
		default:
			out = append(out, e)
		}
	}
	return out
}

type CRunResult struct {
	Name  string   `json:"name"`
	Notes []string `json:"notes"`
}

func runCSchedule(s CSchedule, w *bufWriter) CRunResult {
	r := newCliRunGated(s.Name, s.Cfg)
	for _, a := range s.Cfg.Health {
		r.add(&Ev{Ev: "env.flip", A: r.addrIdx(a), B: 1, Seq: -1, Sent: -1})
	}
	for i, st := range s.Steps {
		r.exec(st, s.Steps[i+1:])
	}
	r.finalize()
	evs := r.traceFolded()
	cfgJSON, _ := json.Marshal(s.Cfg)
	hdr := &Ev{Ev: "reset", K: string(cfgJSON), Seq: -1, Sent: -1}
	writeTrace(w, append([]*Ev{hdr}, evs...))
	return CRunResult{Name: s.Name, Notes: r.notes}
}

func init() {
	commands["creplay"] = func(args []string) {
		fs := flag.NewFlagSet("creplay", flag.ExitOnError)
		in := fs.String("in", "", "schedules JSON")
		out := fs.String("out", "", "trace ndjson")
		res := fs.String("res", "", "results json")
		par := fs.Int("par", 8, "parallel runs")
		fs.Parse(args)
		data, err := os.ReadFile(*in)
		if err != nil {
			fmt.Fprintln(os.Stderr, err)
			os.Exit(2)
		}
		var scheds []CSchedule
		if err := json.Unmarshal(data, &scheds); err != nil {
			fmt.Fprintln(os.Stderr, "bad schedules:", err)
			os.Exit(2)
		}
		results := make([]CRunResult, len(scheds))
		traces := make([][]byte, len(scheds))
		sem := make(chan struct{}, *par)
		var wg sync.WaitGroup
		for i := range scheds {
			wg.Add(1)
			sem <- struct{}{}
			go func(i int) {
				defer wg.Done()
				defer func() { <-sem }()
				var buf bufWriter
				results[i] = runCSchedule(scheds[i], &buf)
				traces[i] = buf.b
			}(i)
		}
		wg.Wait()
		f, _ := os.Create(*out)
		for _, t := range traces {
			f.Write(t)
		}
		f.Close()
		rj, _ := json.MarshalIndent(results, "", " ")
		os.WriteFile(*res, rj, 0644)
	}
}
