package main

// A socket.Socket over UNIX sockets whose writes are fragmented and coalesced by
// a seeded pattern (the real socket.Messages framing runs on top), and whose
// listener implements ServeMessages itself so that rpc's poll-mode branch runs
// with a chosen number of concurrent readers per connection.

import (
	"errors"
	"io"
	"math/rand"
	"net"
	"os"
	"runtime"
	"sync"
	"sync/atomic"
	"time"

	"github.com/hslam/netpoll"
	"github.com/hslam/socket"
)

type fragSocket struct {
	seed     int64
	maxChunk int   // 0: no fragmentation
	readers  int   // poll mode: concurrent serve() calls per connection
	srvEOF   error // non-nil: accepted connections report the end of the stream with this error instead of io.EOF
	opened   int64
	closed   int64
	lmu      sync.Mutex
	conns    []*fragConn
}

func (s *fragSocket) Scheme() string { return "frag" }

func (s *fragSocket) wrap(c net.Conn) *fragConn {
	n := atomic.AddInt64(&s.opened, 1)
	fc := &fragConn{Conn: c, sock: s, rnd: rand.New(rand.NewSource(s.seed + n*7919))}
	s.lmu.Lock()
	s.conns = append(s.conns, fc)
	s.lmu.Unlock()
	return fc
}

func (s *fragSocket) Dial(address string) (socket.Conn, error) {
	c, err := net.Dial("unix", address)
	if err != nil {
		return nil, err
	}
	return s.wrap(c), nil
}

func (s *fragSocket) Listen(address string) (socket.Listener, error) {
	os.RemoveAll(address)
	l, err := net.Listen("unix", address)
	if err != nil {
		return nil, err
	}
	return &fragListener{l: l, sock: s}, nil
}

// Live returns connections opened and not yet closed (both ends count).
func (s *fragSocket) Live() int64 { return atomic.LoadInt64(&s.opened) - atomic.LoadInt64(&s.closed) }

type fragConn struct {
	net.Conn
	sock   *fragSocket
	mu     sync.Mutex
	rnd    *rand.Rand
	once   sync.Once
	server bool  // accepted side
	cutAt  int64 // if > 0: close the connection after this many bytes written
	wrote  int64
}

func (c *fragConn) Write(b []byte) (int, error) {
	c.mu.Lock()
	defer c.mu.Unlock()
	total := 0
	for len(b) > 0 {
		n := len(b)
		if c.sock.maxChunk > 0 {
			k := 1 + c.rnd.Intn(c.sock.maxChunk)
			if c.rnd.Intn(4) == 0 {
				k = 1 + c.rnd.Intn(3)
			}
			if k < n {
				n = k
			}
		}
		if c.cutAt > 0 && c.wrote+int64(n) >= c.cutAt {
			n = int(c.cutAt - c.wrote)
			if n > 0 {
				c.Conn.Write(b[:n])
			}
			c.Conn.Close()
			return total + n, errors.New("harness: connection cut")
		}
		m, err := c.Conn.Write(b[:n])
		total += m
		c.wrote += int64(m)
		if err != nil {
			return total, err
		}
		b = b[n:]
		if c.sock.maxChunk > 0 && c.rnd.Intn(8) == 0 {
			runtime.Gosched()
		}
	}
	return total, nil
}

func (c *fragConn) Read(b []byte) (int, error) {
	n, err := c.Conn.Read(b)
	if err == io.EOF && c.server && c.sock.srvEOF != nil {
		err = c.sock.srvEOF
	}
	return n, err
}

func (c *fragConn) Close() error {
	c.once.Do(func() { atomic.AddInt64(&c.sock.closed, 1) })
	return c.Conn.Close()
}

func (c *fragConn) Messages() socket.Messages { return socket.NewMessages(c, false) }
func (c *fragConn) Connection() net.Conn      { return c.Conn }

type fragListener struct {
	l    net.Listener
	sock *fragSocket
}

func (l *fragListener) Accept() (socket.Conn, error) {
	c, err := l.l.Accept()
	if err != nil {
		return nil, err
	}
	fc := l.sock.wrap(c)
	fc.server = true
	return fc, nil
}
func (l *fragListener) Close() error   { return l.l.Close() }
func (l *fragListener) Addr() net.Addr { return l.l.Addr() }
func (l *fragListener) Serve(handler netpoll.Handler) error {
	return errors.New("frag: Serve not supported")
}
func (l *fragListener) ServeData(opened func(net.Conn) error, serve func(req []byte) (res []byte)) error {
	return errors.New("frag: ServeData not supported")
}
func (l *fragListener) ServeConn(opened func(net.Conn) (socket.Context, error), serve func(socket.Context) error) error {
	return errors.New("frag: ServeConn not supported")
}

// ServeMessages: the poll-mode contract of socket.Listener. `readers` goroutines
// call serve(ctx) concurrently for one connection (netpoll does so for TCP/UNIX).
func (l *fragListener) ServeMessages(opened func(socket.Messages) (socket.Context, error), serve func(socket.Context) error) error {
	for {
		c, err := l.Accept()
		if err != nil {
			return err
		}
		go func(c socket.Conn) {
			ctx, err := opened(c.Messages())
			if err != nil {
				c.Close()
				return
			}
			n := l.sock.readers
			if n < 1 {
				n = 1
			}
			var wg sync.WaitGroup
			for i := 0; i < n; i++ {
				wg.Add(1)
				go func() {
					defer wg.Done()
					for {
						if err := serve(ctx); err != nil {
							return
						}
					}
				}()
			}
			wg.Wait()
			c.Close()
		}(c)
	}
}

var sockCounter int64

// sockPath returns a fresh UNIX socket path (never reused within a process).
func sockPath(tag string) string {
	dir := os.Getenv("VERIF_SOCKDIR")
	if dir == "" {
		dir = os.TempDir()
	}
	n := atomic.AddInt64(&sockCounter, 1)
	return dir + "/vh-" + tag + "-" + itoa(os.Getpid()) + "-" + itoa(int(n)) + "-" + itoa(int(time.Now().UnixNano()%1000000)) + ".sock"
}

func itoa(n int) string {
	if n == 0 {
		return "0"
	}
	neg := n < 0
	if neg {
		n = -n
	}
	var b [20]byte
	i := len(b)
	for n > 0 {
		i--
		b[i] = byte('0' + n%10)
		n /= 10
	}
	if neg {
		i--
		b[i] = '-'
	}
	return string(b[i:])
}
