package main

// Workload engine on the real transports: one configuration = one server + clients
// on a chosen network / header encoder / body codec / server mode / client mode /
// buffer size.  The expected transcript (per call: reply bytes, error text, handler
// executions, order under pipelining) is a function of the workload alone - it does
// not mention the configuration - which is what C12 states; C01/C04/C05/C06 use the
// same engine with their own emphasis.

import (
	"bytes"
	"context"
	"encoding/binary"
	"encoding/hex"
	"encoding/json"
	"encoding/xml"
	"errors"
	"flag"
	"fmt"
	"io"
	"math/rand"
	"os"
	"runtime"
	"sort"
	"strings"
	"sync"
	"sync/atomic"
	"time"

	rpc "github.com/hslam/rpc"
	"github.com/hslam/socket"
)

// Blob is a message usable with every body codec of the library.
type Blob struct {
	B []byte
}

// --- gogo protobuf style (field 1, bytes)
func (b *Blob) Size() int {
	if len(b.B) == 0 {
		return 0
	}
	return 1 + uvarintLen(uint64(len(b.B))) + len(b.B)
}
func uvarintLen(x uint64) int {
	n := 1
	for x >= 0x80 {
		x >>= 7
		n++
	}
	return n
}
func (b *Blob) MarshalTo(buf []byte) (int, error) {
	if len(b.B) == 0 {
		return 0, nil
	}
	n := b.Size()
	if len(buf) < n {
		return 0, errors.New("blob: buffer too short")
	}
	buf[0] = 0x0a
	k := binary.PutUvarint(buf[1:], uint64(len(b.B)))
	copy(buf[1+k:], b.B)
	return n, nil
}
func (b *Blob) Marshal() ([]byte, error) {
	buf := make([]byte, b.Size())
	_, err := b.MarshalTo(buf)
	return buf, err
}
func (b *Blob) Unmarshal(data []byte) error { // also the rpc.Code interface's name; see blobCode below
	b.B = nil
	if len(data) == 0 {
		return nil
	}
	if data[0] != 0x0a {
		return errors.New("blob: bad tag")
	}
	l, k := binary.Uvarint(data[1:])
	if k <= 0 || uint64(len(data)-1-k) < l {
		return errors.New("blob: bad length")
	}
	b.B = data[1+k : 1+k+int(l)] // aliases the input, like generated code with byte fields
	return nil
}

// --- encoding/xml: bytes as hex text (XML character data cannot carry arbitrary bytes)
func (b *Blob) MarshalXML(e *xml.Encoder, start xml.StartElement) error {
	return e.EncodeElement(hex.EncodeToString(b.B), start)
}
func (b *Blob) UnmarshalXML(d *xml.Decoder, start xml.StartElement) error {
	var s string
	if err := d.DecodeElement(&s, &start); err != nil {
		return err
	}
	x, err := hex.DecodeString(s)
	b.B = x
	if len(x) == 0 {
		b.B = nil
	}
	return err
}

// --- msgp style
func (b *Blob) MarshalMsg(buf []byte) ([]byte, error) {
	out := append(buf[:0], 0xc6, 0, 0, 0, 0)
	binary.BigEndian.PutUint32(out[1:], uint32(len(b.B)))
	return append(out, b.B...), nil
}
func (b *Blob) UnmarshalMsg(bts []byte) ([]byte, error) {
	if len(bts) < 5 || bts[0] != 0xc6 {
		return bts, errors.New("blob: bad msgp")
	}
	n := int(binary.BigEndian.Uint32(bts[1:]))
	if len(bts) < 5+n {
		return bts, errors.New("blob: short msgp")
	}
	b.B = bts[5 : 5+n]
	return bts[5+n:], nil
}

// blobCode adapts Blob to the rpc.Code interface (Marshal(buf) / Unmarshal(buf) (uint64, error)).
type blobCode struct{ Blob }

func (b *blobCode) Marshal(buf []byte) ([]byte, error) {
	n := uvarintLen(uint64(len(b.B))) + len(b.B)
	var out []byte
	if cap(buf) >= n {
		out = buf[:n]
	} else {
		out = make([]byte, n)
	}
	k := binary.PutUvarint(out, uint64(len(b.B)))
	copy(out[k:], b.B)
	return out, nil
}
func (b *blobCode) Unmarshal(data []byte) (uint64, error) {
	l, k := binary.Uvarint(data)
	if k <= 0 || uint64(len(data)-k) < l {
		return 0, errors.New("blob: bad code encoding")
	}
	b.B = data[k : k+int(l)]
	return uint64(k) + l, nil
}

// aliasCodec is a BYTES-like body codec: no copies at all.
type aliasCodec struct{}

func (aliasCodec) Marshal(buf []byte, v interface{}) ([]byte, error) {
	switch x := v.(type) {
	case *Blob:
		return x.B, nil
	case *blobCode:
		return x.B, nil
	}
	return nil, fmt.Errorf("alias: cannot marshal %T", v)
}
func (aliasCodec) Unmarshal(data []byte, v interface{}) error {
	switch x := v.(type) {
	case *Blob:
		x.B = data
		return nil
	case *blobCode:
		x.B = data
		return nil
	}
	return fmt.Errorf("alias: cannot unmarshal %T", v)
}

// ---------------------------------------------------------------------------
// Workload

const hdrLen = 20 // conn(2) gor(2) idx(4) flags(1) errlen(3) salt(8)

type wcall struct {
	Conn, Gor, Idx int
	Form           string // call / go / ctx / rt
	Size           int
	Fail           bool
	Miss           bool // unknown method: the server rejects the request before any handler runs
	ErrLen         int
	Method         string // Echo / EchoCtx / EchoRet
}

func (w wcall) payload(seed int64) []byte {
	if w.Size == 0 {
		return nil
	}
	p := make([]byte, w.Size)
	r := rand.New(rand.NewSource(seed ^ int64(w.Conn)<<40 ^ int64(w.Gor)<<24 ^ int64(w.Idx)))
	r.Read(p)
	if w.Size >= hdrLen {
		binary.LittleEndian.PutUint16(p[0:], uint16(w.Conn))
		binary.LittleEndian.PutUint16(p[2:], uint16(w.Gor))
		binary.LittleEndian.PutUint32(p[4:], uint32(w.Idx))
		p[8] = 0
		if w.Fail {
			p[8] = 1
		}
		p[9], p[10], p[11] = byte(w.ErrLen), byte(w.ErrLen>>8), byte(w.ErrLen>>16)
	}
	return p
}

func transform(b []byte) []byte {
	out := make([]byte, len(b))
	for i, c := range b {
		out[i] = c ^ 0x5A ^ byte(i*7)
	}
	return out
}

var errAlphabet = []string{"a", "Z", "9", " ", "é", "漢", "🙂", "\"", "\\", "\n"}

// expectedErr is the error text the handler produces for a failing request.
func expectedErr(p []byte) string {
	n := int(p[9]) | int(p[10])<<8 | int(p[11])<<16
	var sb strings.Builder
	sb.WriteString("E:")
	sb.WriteString(hex.EncodeToString(p[12:20]))
	sb.WriteString(":")
	i := 0
	for sb.Len() < n {
		sb.WriteString(errAlphabet[(int(p[12])+i)%len(errAlphabet)])
		i++
	}
	return sb.String()
}

type execRec struct {
	conn, gor, idx int
	at             int64
}

// StressSvc is the service of the stress server.
type StressSvc struct {
	mu        sync.Mutex
	execs     map[string]int  // digest of request -> executions
	order     map[int][]int64 // conn -> (gor<<32|idx) in execution-begin order
	live      map[int]int
	overlap   map[int]int // conn -> max concurrent handlers
	total     int64
	keep      [][]byte // retained argument slices (C11)
	keepSum   []string
	retain    bool
	delayNs   int64
	pushFirst int
	hold      chan struct{} // ChatHold handlers start reading once this is closed
	big       []byte        // content served by Cached
}

func newStressSvc() *StressSvc {
	return &StressSvc{execs: map[string]int{}, order: map[int][]int64{}, live: map[int]int{}, overlap: map[int]int{}, big: bigContent()}
}

func (s *StressSvc) begin(p []byte) (conn int, hasHdr bool) {
	atomic.AddInt64(&s.total, 1)
	s.mu.Lock()
	defer s.mu.Unlock()
	s.execs[string(p)]++
	if len(p) >= hdrLen {
		conn = int(binary.LittleEndian.Uint16(p[0:]))
		gor := int(binary.LittleEndian.Uint16(p[2:]))
		idx := int(binary.LittleEndian.Uint32(p[4:]))
		s.order[conn] = append(s.order[conn], int64(gor)<<32|int64(idx))
		s.live[conn]++
		if s.live[conn] > s.overlap[conn] {
			s.overlap[conn] = s.live[conn]
		}
		hasHdr = true
	}
	if s.retain {
		s.keep = append(s.keep, p)
		s.keepSum = append(s.keepSum, string(p))
	}
	return
}

func (s *StressSvc) end(conn int, hasHdr bool) {
	if hasHdr {
		s.mu.Lock()
		s.live[conn]--
		s.mu.Unlock()
	}
}

func (s *StressSvc) do(p []byte) ([]byte, error) {
	conn, has := s.begin(p)
	if s.delayNs > 0 && len(p) >= hdrLen && p[12]%4 == 0 {
		time.Sleep(time.Duration(s.delayNs))
	}
	defer s.end(conn, has)
	if len(p) >= hdrLen && p[8]&1 != 0 {
		return nil, errors.New(expectedErr(p))
	}
	return transform(p), nil
}

// Echo: (args, *reply) error
func (s *StressSvc) Echo(req *Blob, res *Blob) error {
	out, err := s.do(req.B)
	res.B = out
	return err
}

// Same answers with the very slice it was given as argument (and, in retention runs, keeps it like every handler does)
func (s *StressSvc) Same(req *Blob, res *Blob) error {
	conn, has := s.begin(req.B)
	defer s.end(conn, has)
	res.B = req.B
	return nil
}

// EchoCtx: (ctx, args, *reply) error
func (s *StressSvc) EchoCtx(ctx context.Context, req *Blob, res *Blob) error {
	out, err := s.do(req.B)
	res.B = out
	return err
}

// EchoRet: (args) (*reply, error)
func (s *StressSvc) EchoRet(req *Blob) (*Blob, error) {
	out, err := s.do(req.B)
	if err != nil {
		return nil, err
	}
	return &Blob{B: out}, nil
}

// Cached answers with a prefix of a slice the service owns and keeps (cached content): the library must treat it as read-only
// and must not keep it either. The request carries the length wanted (4 bytes, little endian).
func (s *StressSvc) Cached(req *Blob, res *Blob) error {
	if len(req.B) < 4 {
		return errors.New("Cached: short request")
	}
	n := int(binary.LittleEndian.Uint32(req.B))
	if n > len(s.big) {
		n = len(s.big)
	}
	res.B = s.big[:n]
	return nil
}

func bigContent() []byte {
	b := make([]byte, 300000)
	r := rand.New(rand.NewSource(77))
	r.Read(b)
	return b
}

// Flip: same shape and same name length as Echo, another function (a request routed to the wrong handler shows in the reply)
func (s *StressSvc) Flip(req *Blob, res *Blob) error {
	out, err := s.do(req.B)
	res.B = flip(out)
	return err
}

// FlipCode: Flip for the code codec
func (s *StressSvc) FlipCode(req *blobCode, res *blobCode) error {
	out, err := s.do(req.B)
	res.B = flip(out)
	return err
}

func flip(b []byte) []byte {
	for i := range b {
		b[i] = ^b[i]
	}
	return b
}

// EchoCode: Echo for the code codec
func (s *StressSvc) EchoCode(req *blobCode, res *blobCode) error {
	out, err := s.do(req.B)
	res.B = out
	return err
}

// StressCfg is one configuration.
type StressCfg struct {
	Name       string  `json:"name"`
	Network    string  `json:"network"` // unix tcp http inproc frag ws
	TLS        bool    `json:"tls"`
	Header     string  `json:"header"` // "" (default) pb json code
	Codec      string  `json:"codec"`  // json xml pb code msgp alias
	ByName     bool    `json:"byname"` // configure through names (Options.Codec / HeaderEncoder) instead of constructors
	Poll       bool    `json:"poll"`
	SrvPipe    bool    `json:"srvpipe"`
	SrvDirect  bool    `json:"srvdirect"`
	CtxBuf     bool    `json:"ctxbuf"`
	NoCopy     bool    `json:"nocopy"`
	CliPipe    bool    `json:"clipipe"`
	CliDirect  bool    `json:"clidirect"`
	BufSize    int     `json:"bufsize"`
	Conns      int     `json:"conns"`
	Callers    int     `json:"callers"`
	Calls      int     `json:"calls"`
	Seed       int64   `json:"seed"`
	Sizes      []int   `json:"sizes"`
	FailEvery  int     `json:"failevery"`
	MissEvery  int     `json:"missevery"` // one call in MissEvery names a method the server does not have
	Frag       int     `json:"frag"`
	Readers    int     `json:"readers"`
	Forms      string  `json:"forms"` // subset of "call,go,ctx,rt"
	DelayUs    int     `json:"delayus"`
	OneAtATime bool    `json:"oneatatime"`
	CtxCases   [][]int `json:"ctxcases"` // [cap, len, 1 if the model places the reply in the caller's buffer]: run after the workload (C11/C19)
	Cached     int     `json:"cached"`   // > 0 (aliasing codec): that many calls of a handler that answers from content it owns, among other calls
	Retain     bool    `json:"retain"`   // user code keeps what it was handed and re-checks it after further traffic (C11)
}

type StressResult struct {
	Name     string   `json:"name"`
	Calls    int      `json:"calls"`
	OK       int      `json:"ok"`
	Errs     int      `json:"errs"`
	Execs    int64    `json:"execs"`
	Failures []string `json:"failures"`
	Skipped  string   `json:"skipped,omitempty"`
	WallMs   int64    `json:"wall_ms"`
	Digest   string   `json:"digest"` // digest of the transcript (call -> outcome), configuration independent
}

func bodyCodecOf(name string) (func() rpc.Codec, bool) {
	switch name {
	case "json":
		return rpc.NewJSONCodec, true
	case "xml":
		return func() rpc.Codec { return &rpc.XMLCodec{} }, true
	case "pb":
		return rpc.NewPBCodec, true
	case "code":
		return rpc.NewCODECodec, true
	case "msgp":
		return func() rpc.Codec { return &rpc.MSGPCodec{} }, true
	case "bytes", "alias":
		return func() rpc.Codec { return aliasCodec{} }, true
	}
	return nil, false
}

func headerOf(name string) func() rpc.Encoder {
	switch name {
	case "pb":
		return rpc.NewPBEncoder
	case "json":
		return rpc.NewJSONEncoder
	case "code":
		return rpc.NewCODEEncoder
	}
	return nil
}

func (c StressCfg) options(fs *fragSocket) *rpc.Options {
	o := &rpc.Options{ClientBufferSize: c.BufSize}
	nc, _ := bodyCodecOf(c.Codec)
	if c.ByName && (c.Codec == "json" || c.Codec == "pb" || c.Codec == "code") {
		o.Codec = c.Codec
	} else {
		o.NewCodec = nc
	}
	if c.Header != "" {
		if c.ByName {
			o.HeaderEncoder = c.Header
		} else {
			o.NewHeaderEncoder = headerOf(c.Header)
		}
	}
	if c.Network == "frag" {
		o.NewSocket = func(*tlsConfigT) socket.Socket { return fs }
	} else if c.ByName {
		o.Network = c.Network
	} else {
		o.NewSocket = rpc.NewSocket(c.Network)
	}
	if c.TLS {
		o.TLSConfig = nil // set by caller
	}
	return o
}

func runStress(c StressCfg) StressResult {
	t0 := time.Now()
	res := StressResult{Name: c.Name}
	fail := func(f string, a ...interface{}) {
		if len(res.Failures) < 20 {
			res.Failures = append(res.Failures, fmt.Sprintf(f, a...))
		}
	}
	if c.Conns < 1 {
		c.Conns = 1
	}
	if c.Callers < 1 {
		c.Callers = 1
	}
	if len(c.Sizes) == 0 {
		c.Sizes = []int{0, 1, 19, 20, 127, 128, 600, 5000}
	}
	if c.Forms == "" {
		c.Forms = "call,go,ctx,rt"
	}
	forms := strings.Split(c.Forms, ",")
	svc := newStressSvc()
	svc.delayNs = int64(c.DelayUs) * 1000
	svc.retain = c.Retain && !c.NoCopy
	server := rpc.NewServer()
	server.SetLogLevel(rpc.OffLogLevel)
	server.RegisterName("S", svc)
	server.SetPoll(c.Poll)
	server.SetPipelining(c.SrvPipe)
	server.SetDirectIO(c.SrvDirect)
	server.SetContextBuffer(c.CtxBuf)
	server.SetNoCopy(c.NoCopy)
	if c.BufSize > 0 {
		server.SetBufferSize(c.BufSize)
	}
	fs := &fragSocket{seed: c.Seed, maxChunk: c.Frag, readers: c.Readers}
	var addr string
	switch c.Network {
	case "unix", "frag":
		addr = sockPath("st")
	case "inproc":
		addr = "vh-inproc-" + itoa(os.Getpid()) + "-" + itoa(int(atomic.AddInt64(&sockCounter, 1)))
	default:
		addr = freeTCPAddr()
	}
	sopts := c.options(fs)
	copts := c.options(fs)
	if c.TLS {
		sopts.TLSConfig = serverTLS()
		copts.TLSConfig = clientTLS()
	}
	lerr := make(chan error, 1)
	go func() { lerr <- server.ListenWithOptions(addr, sopts) }()
	// wait for the listener
	var conns []*rpc.Conn
	deadline := time.Now().Add(5 * time.Second)
	relisten := 0
	for len(conns) < c.Conns {
		cn, err := rpc.DialWithOptions(addr, copts)
		if err == nil && len(conns) == 0 {
			// the address answers - but is it this scenario's server? (a Listen that failed because another process holds the
			// port reports it at once)
			select {
			case e := <-lerr:
				cn.Close()
				err = fmt.Errorf("listen failed: %v", e)
				lerr <- e
			case <-time.After(3 * time.Millisecond):
			}
		}
		if err != nil {
			select {
			case e := <-lerr:
				if relisten < 8 && c.Network != "unix" && c.Network != "frag" && c.Network != "inproc" {
					// the port was taken by someone else after all: another one
					relisten++
					addr = freeTCPAddr()
					go func() { lerr <- server.ListenWithOptions(addr, sopts) }()
					continue
				}
				res.Skipped = "listen failed: " + fmt.Sprint(e)
				return res
			default:
			}
			if time.Now().After(deadline) {
				res.Skipped = "dial failed: " + err.Error()
				return res
			}
			time.Sleep(5 * time.Millisecond)
			continue
		}
		if c.CliPipe {
			cn.SetPipelining(true)
		}
		if c.CliDirect {
			cn.SetDirectIO(true)
		}
		conns = append(conns, cn)
	}
	method := func(w wcall) string {
		if w.Miss {
			return "S.Nope"
		}
		if c.Codec == "code" {
			if w.Method == "Flip" {
				return "S.FlipCode"
			}
			return "S.EchoCode"
		}
		return "S." + w.Method
	}
	expected := func(w wcall, sent []byte) []byte {
		if w.Method == "Flip" {
			return flip(transform(sent))
		}
		return transform(sent)
	}
	newMsg := func(b []byte) (interface{}, func() []byte) {
		if c.Codec == "code" {
			m := &blobCode{Blob{B: b}}
			return m, func() []byte { return m.B }
		}
		m := &Blob{B: b}
		return m, func() []byte { return m.B }
	}
	type outcome struct {
		w    wcall
		err  string
		sum  string
		when int64
	}
	var omu sync.Mutex
	var outcomes []outcome
	var keptReplies [][]byte
	var keptCopies, keptErrTxt []string
	var keptErrs []error
	var seqc int64
	record := func(w wcall, err error, got []byte, sent []byte) {
		o := outcome{w: w, when: atomic.AddInt64(&seqc, 1)}
		if err != nil {
			o.err = err.Error()
		} else {
			o.sum = string(got)
		}
		// oracle
		if w.Miss {
			want := "can't find service S.Nope"
			if err == nil {
				fail("%+v: a call of a method the server does not have succeeded", w)
			} else if err.Error() != want {
				fail("%+v: unknown method: error text %q, want %q", w, trunc(err.Error()), want)
			}
		} else if w.Fail && w.Size >= hdrLen {
			want := expectedErr(sent)
			if err == nil {
				fail("%+v: expected the handler's error, got success", w)
			} else if err.Error() != want {
				fail("%+v: error text differs: got %q (len %d) want %q (len %d)", w, trunc(err.Error()), len(err.Error()), trunc(want), len(want))
			}
		} else {
			if err != nil {
				fail("%+v: unexpected error %q", w, trunc(err.Error()))
			} else if !bytes.Equal(got, expected(w, sent)) {
				fail("%+v: reply is not what the named method computes from the call's own arguments: got %d bytes %x.., want %d bytes %x..", w, len(got), head(got), len(sent), head(expected(w, sent)))
			}
		}
		omu.Lock()
		outcomes = append(outcomes, o)
		if c.Retain {
			if err == nil && len(got) > 0 {
				keptReplies = append(keptReplies, got)
				keptCopies = append(keptCopies, string(got))
			}
			if err != nil {
				keptErrs = append(keptErrs, err)
				keptErrTxt = append(keptErrTxt, string(append([]byte(nil), err.Error()...)))
			}
		}
		omu.Unlock()
	}
	methods := []string{"Echo", "EchoCtx", "EchoRet", "Flip"}
	var wg sync.WaitGroup
	var sentMu sync.Mutex
	sentCount := map[string]int{}
	for ci, cn := range conns {
		for g := 0; g < c.Callers; g++ {
			wg.Add(1)
			go func(ci, g int, cn *rpc.Conn) {
				defer wg.Done()
				r := rand.New(rand.NewSource(c.Seed*1000003 + int64(ci)*1009 + int64(g)))
				done := make(chan *rpc.Call, c.Calls+1)
				type pend struct {
					w    wcall
					sent []byte
					get  func() []byte
					call *rpc.Call
				}
				var asyncs []pend
				for i := 0; i < c.Calls; i++ {
					w := wcall{Conn: ci, Gor: g, Idx: i, Size: c.Sizes[r.Intn(len(c.Sizes))], Form: forms[r.Intn(len(forms))], Method: methods[r.Intn(len(methods))]}
					if c.FailEvery > 0 && w.Size >= hdrLen && r.Intn(c.FailEvery) == 0 {
						w.Fail = true
						w.ErrLen = []int{1, 30, 127, 128, 129, 200, 255, 256, 300, 16383, 16384, 20000}[r.Intn(12)]
					}
					if c.MissEvery > 0 && r.Intn(c.MissEvery) == 0 {
						w.Miss, w.Fail = true, false
					}
					if c.CliPipe && c.Callers == 1 {
						w.Form = "go" // order is promised to asynchronous calls of one goroutine
						if i%4 == 3 {
							w.Form = "rta" // ... whichever asynchronous form issues them: RoundTrip with the shared done channel
						}
					}
					flush := r.Intn(3) == 0 // drawn for every call so that the workload does not depend on the configuration
					sent := w.payload(c.Seed)
					if !w.Miss {
						sentMu.Lock()
						sentCount[string(sent)]++
						sentMu.Unlock()
					}
					args, _ := newMsg(append([]byte(nil), sent...))
					reply, get := newMsg(nil)
					switch w.Form {
					case "call":
						err := cn.Call(method(w), args, reply)
						record(w, err, get(), sent)
					case "ctx":
						cctx := context.Background()
						var cbuf []byte
						if c.Retain {
							// a caller-supplied context buffer around the reply size, with guard bytes behind it
							capv := []int{0, w.Size - 1, w.Size, w.Size + 1, w.Size + 4096}[r.Intn(5)]
							if capv < 0 {
								capv = 0
							}
							cbuf = make([]byte, capv+32)
							for k := range cbuf {
								cbuf[k] = 0xEE
							}
							cctx = context.WithValue(cctx, rpc.BufferContextKey, cbuf[:0:capv])
						}
						err := cn.CallWithContext(cctx, method(w), args, reply)
						gotb := get()
						if cbuf != nil {
							capv := len(cbuf) - 32
							for k := capv; k < len(cbuf); k++ {
								if cbuf[k] != 0xEE {
									fail("%+v: the library wrote beyond the capacity (%d) of the caller-supplied context buffer", w, capv)
									break
								}
							}
							if err == nil && c.Codec == "alias" && len(gotb) > 0 {
								inbuf := capv > 0 && &gotb[0] == &cbuf[0]
								if (capv >= len(gotb)) != inbuf {
									fail("%+v: context buffer capacity %d, reply %d bytes: placed in the buffer = %v", w, capv, len(gotb), inbuf)
								}
							}
						}
						record(w, err, gotb, sent)
					case "rt":
						call := &rpc.Call{ServiceMethod: method(w), Args: args, Reply: reply, Done: make(chan *rpc.Call, 1)}
						cn.RoundTrip(call)
						<-call.Done
						record(w, call.Error, get(), sent)
					default:
						var call *rpc.Call
						if w.Form == "rta" {
							call = cn.RoundTrip(&rpc.Call{ServiceMethod: method(w), Args: args, Reply: reply, Done: done})
						} else {
							call = cn.Go(method(w), args, reply, done)
						}
						asyncs = append(asyncs, pend{w, sent, get, call})
						if c.OneAtATime || (!c.CliPipe && flush) {
							for range asyncs {
								<-done
							}
							for _, p := range asyncs {
								record(p.w, p.call.Error, p.get(), p.sent)
							}
							asyncs = nil
						}
					}
				}
				// collect the rest in completion order
				byCall := map[*rpc.Call]pend{}
				for _, p := range asyncs {
					byCall[p.call] = p
				}
				var compOrder []int
				for range asyncs {
					select {
					case call := <-done:
						p := byCall[call]
						compOrder = append(compOrder, p.w.Idx)
						record(p.w, call.Error, p.get(), p.sent)
					case <-time.After(20 * time.Second):
						fail("conn %d caller %d: an asynchronous call never completed", ci, g)
						return
					}
				}
				if c.CliPipe && c.SrvPipe && c.Callers == 1 && !sort.IntsAreSorted(compOrder) {
					fail("conn %d: pipelined asynchronous calls completed out of issue order: %v", ci, compOrder[:minInt(len(compOrder), 30)])
				}
			}(ci, g, cn)
		}
	}
	wdone := make(chan struct{})
	go func() { wg.Wait(); close(wdone) }()
	// a workload that is slow (large payloads over a fragmenting socket, a loaded machine) is not a finding; callers that
	// make no progress at all are: the verdict needs 60 s without a single completed call
	lastN, lastT := atomic.LoadInt64(&seqc), time.Now()
wait:
	for {
		select {
		case <-wdone:
			break wait
		case <-time.After(500 * time.Millisecond):
			if n := atomic.LoadInt64(&seqc); n != lastN {
				lastN, lastT = n, time.Now()
			} else if time.Since(lastT) > 60*time.Second {
				fail("no call completed for 60 s and the workload is not finished (callers blocked)")
				break wait
			}
		}
	}
	for k, cc := range c.CtxCases {
		capv, ln, want := cc[0], cc[1], cc[2] == 1
		w := wcall{Conn: 0, Gor: 61000, Idx: k, Size: ln}
		p := w.payload(c.Seed + 7)
		cbuf := make([]byte, capv+32)
		for j := range cbuf {
			cbuf[j] = 0xEE
		}
		cctx := context.WithValue(context.Background(), rpc.BufferContextKey, cbuf[:0:capv])
		args, _ := newMsg(p)
		reply, get := newMsg(nil)
		err := conns[0].CallWithContext(cctx, method(wcall{Method: "Echo"}), args, reply)
		sentMu.Lock()
		sentCount[string(p)]++
		sentMu.Unlock()
		got := get()
		if err != nil || !bytes.Equal(got, transform(p)) {
			fail("context-buffer case cap=%d len=%d: call failed or wrong reply: %v (%d bytes)", capv, ln, err, len(got))
			continue
		}
		for j := capv; j < len(cbuf); j++ {
			if cbuf[j] != 0xEE {
				fail("context-buffer case cap=%d len=%d: bytes beyond the buffer's capacity were written", capv, ln)
				break
			}
		}
		if c.Codec == "alias" {
			for j := ln; j < capv; j++ {
				if cbuf[j] != 0xEE {
					fail("context-buffer case cap=%d len=%d: bytes of the caller's buffer beyond the reply were written", capv, ln)
					break
				}
			}
			if ln > 0 {
				in := capv > 0 && &got[0] == &cbuf[0]
				if in != want {
					fail("context-buffer case cap=%d len=%d: reply placed in the caller's buffer = %v, the placement rule says %v", capv, ln, in, want)
				}
			}
		}
	}
	if c.Cached > 0 && c.Codec == "alias" {
		want := bigContent()
		for k := 0; k < c.Cached; k++ {
			n := []int{70000, 131072, 200000, 66000}[k%4]
			q := make([]byte, 4)
			binary.LittleEndian.PutUint32(q, uint32(n))
			args, _ := newMsg(q)
			reply, get := newMsg(nil)
			cn := conns[k%len(conns)]
			if err := cn.Call("S.Cached", args, reply); err != nil {
				fail("Cached(%d): %v", n, err)
				break
			}
			if got := get(); !bytes.Equal(got, want[:n]) {
				d := 0
				for d < len(got) && d < n && got[d] == want[d] {
					d++
				}
				fail("Cached(%d), call %d: the reply is not the content the handler serves (first difference at byte %d: %x, want %x): something wrote into memory the handler owns", n, k, d, head(got[d:]), head(want[d:n]))
				break
			}
			// other traffic in between
			w := wcall{Conn: 0, Gor: 62000, Idx: k, Size: 300 + 37*k}
			p := w.payload(c.Seed + 5)
			a2, _ := newMsg(p)
			r2, g2 := newMsg(nil)
			if err := cn.Call(method(wcall{Method: "Echo"}), a2, r2); err != nil || !bytes.Equal(g2(), transform(p)) {
				fail("Echo between Cached calls: err %v", err)
				break
			}
			sentMu.Lock()
			sentCount[string(p)]++
			sentMu.Unlock()
		}
		if !bytes.Equal(svc.big, want) {
			fail("the content a handler owns and answers from was modified by the library")
		}
	}
	if c.Retain && c.Codec != "code" && !(c.SrvPipe && c.CliPipe && c.Callers == 1) {
		// user code hands what it kept back to the library: kept replies are forwarded as arguments of further calls, and a
		// handler answers with the slice it was given (and keeps); none of that makes the bytes the library's to recycle
		omu.Lock()
		fwd := append([][]byte(nil), keptReplies...)
		omu.Unlock()
		nf := 0
		for i := len(fwd) - 1; i >= 0 && nf < 8; i-- {
			if len(fwd[i]) < hdrLen {
				continue
			}
			nf++
			cn := conns[i%len(conns)]
			reply, get := newMsg(nil)
			// (S.Same does not interpret the bytes; S.Echo only for forwarded bytes whose header does not ask for a failure)
			m := "S.Same"
			if nf%2 == 0 && fwd[i][8]&1 == 0 {
				m = "S.Echo"
			}
			sentMu.Lock()
			sentCount[string(fwd[i])]++
			sentMu.Unlock()
			if err := cn.Call(m, &Blob{B: fwd[i]}, reply); err != nil {
				if !(len(fwd[i]) >= hdrLen && fwd[i][8]&1 != 0) {
					fail("forwarding a kept reply (%d bytes) as an argument failed: %v", len(fwd[i]), err)
				}
			} else if m == "S.Same" && !bytes.Equal(get(), fwd[i]) {
				fail("S.Same did not answer with its argument (%d bytes)", len(fwd[i]))
			}
		}
	}
	if c.Retain {
		// further traffic of the same size classes on every connection churns the pools, then everything kept is compared again
		for ci, cn := range conns {
			for k := 0; k < 40; k++ {
				w := wcall{Conn: ci, Gor: 60000, Idx: k, Size: c.Sizes[k%len(c.Sizes)]}
				p := w.payload(c.Seed + 99)
				args, _ := newMsg(p)
				reply, _ := newMsg(nil)
				cn.Call(method(wcall{Method: "Echo"}), args, reply)
				sentMu.Lock()
				sentCount[string(p)]++
				sentMu.Unlock()
			}
		}
		omu.Lock()
		for i := range keptReplies {
			if string(keptReplies[i]) != keptCopies[i] {
				fail("a reply kept by the caller (%d bytes) was modified by later traffic", len(keptCopies[i]))
				break
			}
		}
		for i := range keptErrs {
			if keptErrs[i].Error() != keptErrTxt[i] {
				fail("the text of an error kept by the caller (%d bytes) was modified by later traffic", len(keptErrTxt[i]))
				break
			}
		}
		omu.Unlock()
		svc.mu.Lock()
		for i := range svc.keep {
			if string(svc.keep[i]) != svc.keepSum[i] {
				fail("request arguments kept by a handler (%d bytes, NoCopy off) were modified by later traffic", len(svc.keepSum[i]))
				break
			}
		}
		svc.mu.Unlock()
	}
	// server side oracle
	svc.mu.Lock()
	for p, n := range svc.execs {
		if sentCount[p] != n {
			if len(p) >= hdrLen {
				fail("request conn=%d gor=%d idx=%d executed %d times, sent %d times", binary.LittleEndian.Uint16([]byte(p)[0:]), binary.LittleEndian.Uint16([]byte(p)[2:]), binary.LittleEndian.Uint32([]byte(p)[4:]), n, sentCount[p])
			} else {
				fail("a %d-byte request was executed %d times but sent %d times", len(p), n, sentCount[p])
			}
		}
	}
	for p, n := range sentCount {
		if svc.execs[p] != n {
			fail("a %d-byte request sent %d times was executed %d times", len(p), n, svc.execs[p])
		}
	}
	if c.SrvPipe {
		for conn, ov := range svc.overlap {
			if ov > 1 {
				fail("server pipelining: %d handlers of connection %d ran concurrently", ov, conn)
			}
		}
		if c.CliPipe && c.Callers == 1 {
			for conn, ord := range svc.order {
				if !sort.SliceIsSorted(ord, func(i, j int) bool { return ord[i] < ord[j] }) {
					fail("server pipelining: connection %d executed out of send order", conn)
				}
			}
		}
	}
	res.Execs = svc.total
	svc.mu.Unlock()
	sort.Slice(outcomes, func(i, j int) bool {
		a, b := outcomes[i].w, outcomes[j].w
		if a.Conn != b.Conn {
			return a.Conn < b.Conn
		}
		if a.Gor != b.Gor {
			return a.Gor < b.Gor
		}
		return a.Idx < b.Idx
	})
	h := newDigest()
	for _, o := range outcomes {
		res.Calls++
		if o.err == "" {
			res.OK++
		} else {
			res.Errs++
		}
		h.add(fmt.Sprintf("%d/%d/%d:%s:", o.w.Conn, o.w.Gor, o.w.Idx, o.err))
		h.add(o.sum)
	}
	res.Digest = h.hex()
	if !c.Poll {
		for _, cn := range conns {
			cn.Close()
		}
		server.Close()
	}
	res.WallMs = time.Since(t0).Milliseconds()
	return res
}

func minInt(a, b int) int {
	if a < b {
		return a
	}
	return b
}
func trunc(s string) string {
	if len(s) > 60 {
		return s[:60] + "..."
	}
	return s
}
func head(b []byte) []byte {
	if len(b) > 8 {
		return b[:8]
	}
	return b
}

func init() {
	commands["stress"] = func(args []string) {
		fs := flag.NewFlagSet("stress", flag.ExitOnError)
		in := fs.String("in", "", "configurations (JSON array)")
		out := fs.String("out", "", "results (JSON array)")
		fs.Parse(args)
		data, err := os.ReadFile(*in)
		if err != nil {
			fmt.Fprintln(os.Stderr, err)
			os.Exit(2)
		}
		var cfgs []StressCfg
		if err := json.Unmarshal(data, &cfgs); err != nil {
			fmt.Fprintln(os.Stderr, "bad configs:", err)
			os.Exit(2)
		}
		var results []StressResult
		for _, c := range cfgs {
			results = append(results, guarded(c.Name, 240*time.Second, func() StressResult { return runStress(c) }))
			rj, _ := json.MarshalIndent(results, "", " ")
			os.WriteFile(*out, rj, 0644)
		}
	}
}

// ---------------------------------------------------------------------------
// Stream scenarios on the real transports (including the poll-mode branch).

// SStream is the stream handler's argument (Blob messages).
type SStream struct{ s rpc.Stream }

func (h *SStream) Connect(s rpc.Stream) error   { h.s = s; return nil }
func (h *SStream) Read(b []byte, m *Blob) error { return h.s.ReadMessage(b, m) }
func (h *SStream) Write(m *Blob) error          { return h.s.WriteMessage(m) }

var (
	chatStarted, chatReturned int64
)

// Chat pushes `first` messages at once (first = byte 0 of the first message it would otherwise wait for is not
// available to a stream handler, so the count comes from the service), then echoes every message it reads,
// transformed, until the stream is shut down.
func (s *StressSvc) Chat(st *SStream) error {
	atomic.AddInt64(&chatStarted, 1)
	defer atomic.AddInt64(&chatReturned, 1)
	for i := 0; i < s.pushFirst; i++ {
		p := make([]byte, 12)
		binary.LittleEndian.PutUint32(p, uint32(i+1))
		copy(p[4:], "pushpush")
		if err := st.Write(&Blob{B: p}); err != nil {
			return err
		}
	}
	for {
		var m Blob
		if err := st.Read(nil, &m); err != nil {
			return err
		}
		if s.retain {
			s.mu.Lock()
			s.keep = append(s.keep, m.B)
			s.keepSum = append(s.keepSum, string(m.B))
			s.mu.Unlock()
		}
		if err := st.Write(&Blob{B: transform(m.B)}); err != nil {
			return err
		}
	}
}

// ChatHold does not read until the scenario releases it (messages queue up unread in the stream), then echoes like Chat.
func (s *StressSvc) ChatHold(st *SStream) error {
	atomic.AddInt64(&chatStarted, 1)
	defer atomic.AddInt64(&chatReturned, 1)
	if s.hold != nil {
		<-s.hold
	}
	for {
		var m Blob
		if err := st.Read(nil, &m); err != nil {
			return err
		}
		if err := st.Write(&Blob{B: transform(m.B)}); err != nil {
			return err
		}
	}
}

type StreamScenario struct {
	Name       string `json:"name"`
	Network    string `json:"network"`
	Poll       bool   `json:"poll"`
	Readers    int    `json:"readers"`
	SrvDirect  bool   `json:"srvdirect"`
	SrvPipe    bool   `json:"srvpipe"`
	CliDirect  bool   `json:"clidirect"`
	CliPipe    bool   `json:"clipipe"` // the client connection pipelines (streams opened among in-order unary calls)
	Streams    int    `json:"streams"`
	PushFirst  int    `json:"pushfirst"`
	Msgs       int    `json:"msgs"`
	Unary      int    `json:"unary"`
	End        string `json:"end"` // close (client closes every stream) / drop (client drops the connection) / half (closes one, drops the rest)
	Frag       int    `json:"frag"`
	Seed       int64  `json:"seed"`
	Codec      string `json:"codec"`      // "" (pb) / alias
	Retain     bool   `json:"retain"`     // both ends keep every stream message they read and compare after the traffic (C11)
	SrvNoCopy  bool   `json:"srvnocopy"`  // Server.SetNoCopy(true): handlers that do not keep what they read
	Hold       int    `json:"hold"`       // > 0: every stream's handler starts reading only after the client wrote its messages and made Hold unary calls
	After      int    `json:"after"`      // > 0 (End = close): after the streams were closed, After concurrent callers and 2 pingers use the connection
	RaceClose  int    `json:"raceclose"`  // > 0: that many extra streams are closed at the very moment a reader enters ReadMessage
	BurstClose int    `json:"burstclose"` // > 0: that many extra streams get a burst of large messages and are closed at once, the close frame right behind the burst
	Batch      int    `json:"batch"`      // the client reads its echoes after every Batch messages (default 3): larger = longer bursts towards the server
	SrvEOF     string `json:"srveof"`     // "unexpected": accepted connections report the end of the stream as io.ErrUnexpectedEOF (a TLS record cut short)
}

func runStreamScenario(c StreamScenario) StressResult {
	res := StressResult{Name: c.Name}
	t0 := time.Now()
	fail := func(f string, a ...interface{}) {
		if len(res.Failures) < 20 {
			res.Failures = append(res.Failures, fmt.Sprintf(f, a...))
		}
	}
	svc := newStressSvc()
	svc.pushFirst = c.PushFirst
	svc.retain = c.Retain
	chatMethod := "S.Chat"
	if c.Hold > 0 {
		svc.hold = make(chan struct{})
		chatMethod = "S.ChatHold"
	}
	var kmu sync.Mutex
	var kept [][]byte
	var keptSum []string
	server := rpc.NewServer()
	server.SetLogLevel(rpc.OffLogLevel)
	server.RegisterName("S", svc)
	server.SetPoll(c.Poll)
	server.SetPipelining(c.SrvPipe)
	server.SetDirectIO(c.SrvDirect)
	server.SetNoCopy(c.SrvNoCopy)
	fs := &fragSocket{seed: c.Seed, maxChunk: c.Frag, readers: c.Readers}
	if c.SrvEOF == "unexpected" {
		fs.srvEOF = io.ErrUnexpectedEOF
	}
	addr := sockPath("ss")
	opts := &rpc.Options{NewCodec: rpc.NewPBCodec}
	if nc, ok := bodyCodecOf(c.Codec); ok {
		opts.NewCodec = nc
	}
	if c.SrvNoCopy && (c.Codec == "" || c.Codec == "alias" || c.Codec == "pb" || c.Codec == "code" || c.Codec == "msgp") {
		// with Server.SetNoCopy a stream handler is handed values backed by a buffer that is already back in the pool when
		// ReadMessage returns (documented: only for handlers and codecs that do not keep or alias what they read): such a
		// server is driven with a codec that copies on decode
		opts.NewCodec = rpc.NewJSONCodec
	}
	if c.Network == "frag" {
		opts.NewSocket = func(*tlsConfigT) socket.Socket { return fs }
	} else {
		opts.NewSocket = rpc.NewSocket("unix")
	}
	go server.ListenWithOptions(addr, opts)
	var conn *rpc.Conn
	deadline := time.Now().Add(5 * time.Second)
	for {
		var err error
		conn, err = rpc.DialWithOptions(addr, opts)
		if err == nil {
			break
		}
		if time.Now().After(deadline) {
			res.Skipped = "dial failed: " + err.Error()
			return res
		}
		time.Sleep(5 * time.Millisecond)
	}
	if c.CliDirect {
		conn.SetDirectIO(true)
	}
	if c.CliPipe {
		conn.SetPipelining(true)
	}
	started0, returned0 := atomic.LoadInt64(&chatStarted), atomic.LoadInt64(&chatReturned)
	var wg sync.WaitGroup
	var holdWritten sync.WaitGroup
	if c.Hold > 0 {
		holdWritten.Add(c.Streams)
		go func() {
			// once every stream has written its messages: unary traffic on the same connection, then let the handlers read
			w := make(chan struct{})
			go func() { holdWritten.Wait(); close(w) }()
			select {
			case <-w:
			case <-time.After(10 * time.Second):
			}
			for u := 0; u < c.Hold; u++ {
				wc := wcall{Conn: 8, Gor: u, Idx: u, Size: 40 + 3*u}
				p := wc.payload(c.Seed)
				var rep Blob
				if err := conn.Call("S.Echo", &Blob{B: p}, &rep); err != nil {
					fail("unary call while stream messages are queued: %v", err)
				} else if !bytes.Equal(rep.B, transform(p)) {
					fail("unary call while stream messages are queued got a foreign reply (%d bytes)", len(rep.B))
				}
			}
			close(svc.hold)
		}()
	}
	streams := make([]rpc.Stream, c.Streams)
	for i := 0; i < c.Streams; i++ {
		wg.Add(1)
		go func(i int) {
			defer wg.Done()
			st, err := conn.NewStream(chatMethod)
			if err != nil {
				fail("NewStream %d: %v", i, err)
				return
			}
			streams[i] = st
			if c.Hold > 0 {
				// the handler is not reading yet: everything written now queues up in the server's stream
				r := rand.New(rand.NewSource(c.Seed*131 + int64(i)))
				var sent [][]byte
				for k := 0; k < c.Msgs; k++ {
					p := make([]byte, 1+r.Intn(300))
					r.Read(p)
					p[0] = byte(i)
					sent = append(sent, p)
					if err := st.WriteMessage(&Blob{B: append([]byte(nil), p...)}); err != nil {
						fail("stream %d: WriteMessage %d: %v", i, k, err)
						return
					}
				}
				holdWritten.Done()
				<-svc.hold
				for k := range sent {
					var m Blob
					if err := readWithin(st, &m, 5*time.Second); err != nil {
						fail("stream %d: echo of queued message %d never arrived: %v", i, k, err)
						return
					}
					if !bytes.Equal(m.B, transform(sent[k])) {
						fail("stream %d: a message that waited unread in the server's stream while other traffic flowed was not delivered as written: message %d, got %d bytes %x want %x", i, k, len(m.B), head(m.B), head(transform(sent[k])))
						return
					}
				}
				return
			}
			r := rand.New(rand.NewSource(c.Seed*131 + int64(i)))
			var sent [][]byte
			// the handler's first pushes, in order
			for k := 0; k < c.PushFirst; k++ {
				var m Blob
				if err := readWithin(st, &m, 5*time.Second); err != nil {
					fail("stream %d: push %d of %d never arrived: %v", i, k+1, c.PushFirst, err)
					return
				}
				if len(m.B) != 12 || binary.LittleEndian.Uint32(m.B) != uint32(k+1) || string(m.B[4:]) != "pushpush" {
					fail("stream %d: expected push %d, got %d bytes %x", i, k+1, len(m.B), head(m.B))
					return
				}
			}
			for k := 0; k < c.Msgs; k++ {
				p := make([]byte, 1+r.Intn(300))
				r.Read(p)
				p[0] = byte(i)
				sent = append(sent, p)
				if err := st.WriteMessage(&Blob{B: append([]byte(nil), p...)}); err != nil {
					fail("stream %d: WriteMessage %d: %v", i, k, err)
					return
				}
				batch := c.Batch
				if batch <= 0 {
					batch = 3
				}
				if k%batch == batch-1 || k == c.Msgs-1 { // read the echoes in batches
					for len(sent) > 0 {
						var m Blob
						if err := readWithin(st, &m, 5*time.Second); err != nil {
							fail("stream %d: echo never arrived: %v", i, err)
							return
						}
						if c.Retain {
							kmu.Lock()
							kept = append(kept, m.B)
							keptSum = append(keptSum, string(m.B))
							kmu.Unlock()
						}
						if !bytes.Equal(m.B, transform(sent[0])) {
							fail("stream %d: message is not the echo of what this stream sent (lost, duplicated, reordered or from another stream): got %d bytes %x want %x", i, len(m.B), head(m.B), head(transform(sent[0])))
							return
						}
						sent = sent[1:]
					}
				}
			}
		}(i)
	}
	// unary traffic and pings interleaved on the same connection
	for u := 0; u < c.Unary; u++ {
		wg.Add(1)
		go func(u int) {
			defer wg.Done()
			w := wcall{Conn: 7, Gor: u, Idx: u, Size: 40 + u}
			p := w.payload(c.Seed)
			var rep Blob
			if u%4 == 3 {
				if err := conn.Ping(); err != nil {
					fail("ping among stream traffic: %v", err)
				}
				return
			}
			if err := conn.Call("S.Echo", &Blob{B: p}, &rep); err != nil {
				fail("unary call among stream traffic: %v", err)
			} else if !bytes.Equal(rep.B, transform(p)) {
				fail("unary call among stream traffic got a foreign reply (%d bytes)", len(rep.B))
			}
		}(u)
	}
	done := make(chan struct{})
	go func() { wg.Wait(); close(done) }()
	select {
	case <-done:
	case <-time.After(30 * time.Second):
		fail("stream workload did not finish (blocked)")
	}
	res.Calls = c.Streams*(c.Msgs+c.PushFirst) + c.Unary
	if c.Retain {
		for k := 0; k < 30; k++ { // pool churn
			var rep Blob
			conn.Call("S.Echo", &Blob{B: wcall{Conn: 9, Idx: k, Size: 30 + 10*k}.payload(c.Seed)}, &rep)
		}
		kmu.Lock()
		for i := range kept {
			if string(kept[i]) != keptSum[i] {
				fail("a stream message kept by the client reader (%d bytes) was modified by later traffic", len(keptSum[i]))
				break
			}
		}
		kmu.Unlock()
		svc.mu.Lock()
		for i := range svc.keep {
			if string(svc.keep[i]) != svc.keepSum[i] {
				fail("a stream message kept by the stream handler (%d bytes, NoCopy off) was modified by later traffic", len(svc.keepSum[i]))
				break
			}
		}
		svc.mu.Unlock()
	}
	if c.BurstClose > 0 { // (before the end phase: the scenario's own streams are still open, their handlers parked in ReadMessage)
		big := make([]byte, 8192)
		for i := 0; i < c.BurstClose && len(res.Failures) == 0; i++ {
			st, err := conn.NewStream("S.Chat")
			if err != nil {
				fail("burst-close stream %d: NewStream: %v", i, err)
				break
			}
			for k := 0; k < 120; k++ {
				big[0] = byte(k)
				if err := st.WriteMessage(&Blob{B: big}); err != nil {
					fail("burst-close stream %d: WriteMessage %d: %v", i, k, err)
					break
				}
			}
			// writers racing the Close: a message frame may leave after the close frame and reach a server that no longer
			// knows the stream
			var wwg sync.WaitGroup
			for wtr := 0; wtr < 3; wtr++ {
				wwg.Add(1)
				go func() {
					defer wwg.Done()
					small := make([]byte, 64)
					for k := 0; k < 400; k++ {
						if err := st.WriteMessage(&Blob{B: small}); err != nil {
							return
						}
					}
				}()
			}
			if i%2 == 1 {
				time.Sleep(100 * time.Microsecond)
			}
			cl := make(chan error, 1)
			go func() { cl <- st.Close() }()
			select {
			case <-cl:
			case <-time.After(5 * time.Second):
				fail("burst-close stream %d: Close did not return within 5 s", i)
			}
			wwg.Wait()
			wc := wcall{Conn: 5, Gor: i, Idx: i, Size: 64}
			p := wc.payload(c.Seed)
			var rep Blob
			if err, ok := within(5*time.Second, func() error { return conn.Call("S.Echo", &Blob{B: p}, &rep) }); !ok {
				fail("burst-close stream %d: a call on the same connection after the close did not return within 5 s", i)
			} else if err != nil {
				fail("burst-close stream %d: a call on the same connection after the close failed: %v", i, err)
			} else if !bytes.Equal(rep.B, transform(p)) {
				fail("burst-close stream %d: the call after the close got a foreign reply", i)
			}
		}
	}
	// ---- the end: every handler must return
	waitStarted := time.Now().Add(2 * time.Second)
	for atomic.LoadInt64(&chatStarted)-started0 < int64(c.Streams) && time.Now().Before(waitStarted) {
		time.Sleep(time.Millisecond)
	}
	nstarted := atomic.LoadInt64(&chatStarted) - started0
	blockedReaders := int64(0)
	switch c.End {
	case "close", "half":
		for i, st := range streams {
			if st == nil || (c.End == "half" && i > 0) {
				continue
			}
			// a reader blocked on the stream must be released by Close
			rd := make(chan error, 1)
			go func(st rpc.Stream) { var m Blob; rd <- st.ReadMessage(nil, &m) }(st)
			time.Sleep(time.Millisecond)
			cerr := make(chan error, 1)
			go func(st rpc.Stream) { cerr <- st.Close() }(st)
			select {
			case err := <-rd:
				if err != rpc.ErrStreamShutdown {
					fail("stream %d: blocked ReadMessage returned %v after Close, want ErrStreamShutdown", i, err)
				}
			case <-time.After(3 * time.Second):
				atomic.AddInt64(&blockedReaders, 1)
				fail("stream %d: ReadMessage still blocked 3 s after Close", i)
			}
			select {
			case <-cerr:
			case <-time.After(3 * time.Second):
				fail("stream %d: Close did not return within 3 s", i)
			}
			if err := st.WriteMessage(&Blob{B: []byte{1}}); err != rpc.ErrStreamShutdown {
				fail("stream %d: WriteMessage after Close returned %v, want ErrStreamShutdown", i, err)
			}
			if c.End == "half" && len(streams) > 1 && streams[1] != nil {
				// new requests issued after the oldest stream was closed (a call, a ping, another stream) ...
				wc := wcall{Conn: 4, Gor: i, Idx: 1, Size: 48}
				pp := wc.payload(c.Seed)
				var rep Blob
				if err, ok := within(5*time.Second, func() error { return conn.Call("S.Echo", &Blob{B: pp}, &rep) }); !ok {
					fail("a call made after closing the oldest stream while a newer one is open did not return within 5 s")
				} else if err != nil || !bytes.Equal(rep.B, transform(pp)) {
					fail("call after closing the oldest stream while a newer one is open: err %v, reply %d bytes", err, len(rep.B))
				}
				if err, ok := within(5*time.Second, conn.Ping); !ok {
					fail("a ping made after closing the oldest stream while a newer one is open did not return within 5 s")
				} else if err != nil {
					fail("ping after closing the oldest stream while a newer one is open: %v", err)
				}
				var st3 rpc.Stream
				if err, ok := within(5*time.Second, func() (e error) { st3, e = conn.NewStream("S.Chat"); return }); !ok {
					fail("NewStream after closing the oldest stream did not return within 5 s")
				} else if err != nil {
					fail("NewStream after closing the oldest stream: %v", err)
				} else {
					for k := 0; k < c.PushFirst; k++ { // the handler's first pushes
						var m Blob
						readWithin(st3, &m, 3*time.Second)
					}
					q := []byte{7, 7, 7, 7}
					var m Blob
					if err := st3.WriteMessage(&Blob{B: q}); err != nil {
						fail("new stream opened after closing the oldest one: write: %v", err)
					} else if err := readWithin(st3, &m, 3*time.Second); err != nil || !bytes.Equal(m.B, transform(q)) {
						fail("new stream opened after closing the oldest one: echo %v %x (cross-wired with a sibling?)", err, head(m.B))
					}
					streams = append(streams, st3)
				}
				// ... and the sibling is undisturbed
				p := []byte{9, 9, 9}
				if err := streams[1].WriteMessage(&Blob{B: p}); err != nil {
					fail("sibling stream disturbed by closing stream 0: %v", err)
				} else {
					var m Blob
					if err := readWithin(streams[1], &m, 3*time.Second); err != nil || !bytes.Equal(m.B, transform(p)) {
						fail("sibling stream disturbed by closing stream 0: echo %v %x", err, head(m.B))
					}
				}
			}
		}
	}
	if c.End != "close" {
		// readers blocked on the remaining streams when the connection is dropped
		var rds []chan error
		for i, st := range streams {
			if st == nil || (c.End == "half" && i == 0) {
				continue
			}
			ch := make(chan error, 1)
			rds = append(rds, ch)
			go func(st rpc.Stream) { var m Blob; ch <- st.ReadMessage(nil, &m) }(st)
		}
		time.Sleep(2 * time.Millisecond)
		conn.Close()
		for _, ch := range rds {
			select {
			case err := <-ch:
				if err != rpc.ErrStreamShutdown {
					fail("blocked client ReadMessage returned %v after the connection was closed, want ErrStreamShutdown", err)
				}
			case <-time.After(3 * time.Second):
				fail("a client ReadMessage is still blocked 3 s after the connection was closed")
			}
		}
	}
	hdead := time.Now().Add(3 * time.Second)
	for atomic.LoadInt64(&chatReturned)-returned0 < nstarted && time.Now().Before(hdead) {
		time.Sleep(time.Millisecond)
	}
	if got := atomic.LoadInt64(&chatReturned) - returned0; got < nstarted {
		fail("%d of %d stream handlers still blocked 3 s after their streams were closed / the connection was dropped (server mode poll=%v)", nstarted-got, nstarted, c.Poll)
	}
	if c.End == "close" && c.RaceClose > 0 {
		for i := 0; i < c.RaceClose; i++ {
			st, err := conn.NewStream("S.Chat")
			if err != nil {
				fail("race-close stream %d: NewStream: %v", i, err)
				break
			}
			rd := make(chan error, 1)
			var ready int32
			go func() {
				var m Blob
				atomic.StoreInt32(&ready, 1)
				rd <- st.ReadMessage(nil, &m)
			}()
			for atomic.LoadInt32(&ready) == 0 { // Close lands while the reader is on its way into ReadMessage
				if i%4 == 3 {
					runtime.Gosched()
				}
			}
			st.Close()
			select {
			case err := <-rd:
				if err != rpc.ErrStreamShutdown {
					fail("race-close stream %d: ReadMessage returned %v, want ErrStreamShutdown", i, err)
				}
			case <-time.After(3 * time.Second):
				fail("race-close stream %d: a ReadMessage entered at the moment of Close is still blocked 3 s after Close returned", i)
			}
			if len(res.Failures) > 0 {
				break
			}
		}
	}
	if c.End == "close" && c.After > 0 {
		// the streams are closed: ordinary traffic on the connection must be undisturbed by what they left behind
		var awg sync.WaitGroup
		stopPing := make(chan struct{})
		for pg := 0; pg < 2; pg++ {
			awg.Add(1)
			go func() {
				defer awg.Done()
				for {
					select {
					case <-stopPing:
						return
					default:
					}
					if err := conn.Ping(); err != nil {
						fail("ping after the streams were closed: %v", err)
						return
					}
				}
			}()
		}
		// refused stream opens (unknown method) run alongside: what they recycle must not reach the ordinary calls
		awg.Add(1)
		go func() {
			defer awg.Done()
			for {
				select {
				case <-stopPing:
					return
				default:
				}
				ch := make(chan error, 1)
				go func() { _, err := conn.NewStream("S.Nope"); ch <- err }()
				select {
				case err := <-ch:
					if err == nil {
						fail("NewStream of a method the server does not have succeeded")
						return
					}
				case <-time.After(5 * time.Second):
					fail("NewStream of a method the server does not have did not return within 5 s")
					return
				}
			}
		}()
		var cwg sync.WaitGroup
		for g := 0; g < c.After; g++ {
			cwg.Add(1)
			go func(g int) {
				defer cwg.Done()
				for k := 0; k < 60; k++ {
					wc := wcall{Conn: 6, Gor: g, Idx: k, Size: 24 + g + k}
					p := wc.payload(c.Seed)
					var rep Blob
					cerr := make(chan error, 1)
					go func() { cerr <- conn.Call("S.Echo", &Blob{B: p}, &rep) }()
					var err error
					select {
					case err = <-cerr:
					case <-time.After(10 * time.Second):
						fail("call after the streams were closed did not return within 10 s")
						return
					}
					if err != nil {
						fail("call after the streams were closed: %v", err)
						return
					} else if !bytes.Equal(rep.B, transform(p)) {
						fail("call after the streams were closed: reply is not F(own arguments): got %d bytes %x, want %x", len(rep.B), head(rep.B), head(transform(p)))
						return
					}
				}
			}(g)
		}
		cwg.Wait()
		close(stopPing)
		awg.Wait()
		res.Calls += c.After * 60
	}
	if c.End == "close" {
		conn.Close()
	}
	if !c.Poll {
		server.Close()
	}
	res.WallMs = time.Since(t0).Milliseconds()
	return res
}

// guarded runs one scenario under a watchdog: a scenario that does not finish is reported as a failure of that scenario, with
// the library frames of the goroutines that are stuck (the worker then goes on with the next scenario).
func guarded(name string, d time.Duration, f func() StressResult) StressResult {
	ch := make(chan StressResult, 1)
	go func() { ch <- f() }()
	select {
	case r := <-ch:
		return r
	case <-time.After(d):
		buf := make([]byte, 1<<20)
		buf = buf[:runtime.Stack(buf, true)]
		var stuck []string
		for _, g := range strings.Split(string(buf), "\n\n") {
			if strings.Contains(g, "hslam/rpc.") {
				lines := strings.Split(g, "\n")
				for _, ln := range lines {
					if strings.Contains(ln, "hslam/rpc.") {
						stuck = append(stuck, strings.TrimSpace(ln))
						break
					}
				}
			}
			if len(stuck) >= 6 {
				break
			}
		}
		return StressResult{Name: name, Failures: []string{fmt.Sprintf("the scenario did not finish within %v: calls into the library never returned (%s)", d, strings.Join(stuck, "; "))}}
	}
}

// within runs f and reports whether it returned within d (a call that hangs is a finding, not a reason to hang the driver)
func within(d time.Duration, f func() error) (error, bool) {
	ch := make(chan error, 1)
	go func() { ch <- f() }()
	select {
	case err := <-ch:
		return err, true
	case <-time.After(d):
		return nil, false
	}
}

func readWithin(st rpc.Stream, m *Blob, d time.Duration) error {
	ch := make(chan error, 1)
	go func() { ch <- st.ReadMessage(nil, m) }()
	select {
	case err := <-ch:
		return err
	case <-time.After(d):
		return errors.New("timeout")
	}
}

func init() {
	commands["sstress"] = func(args []string) {
		fs := flag.NewFlagSet("sstress", flag.ExitOnError)
		in := fs.String("in", "", "scenarios (JSON array)")
		out := fs.String("out", "", "results (JSON array)")
		fs.Parse(args)
		data, err := os.ReadFile(*in)
		if err != nil {
			fmt.Fprintln(os.Stderr, err)
			os.Exit(2)
		}
		var cfgs []StreamScenario
		if err := json.Unmarshal(data, &cfgs); err != nil {
			fmt.Fprintln(os.Stderr, "bad scenarios:", err)
			os.Exit(2)
		}
		var results []StressResult
		for _, c := range cfgs {
			results = append(results, guarded(c.Name, 90*time.Second, func() StressResult { return runStreamScenario(c) }))
			rj, _ := json.MarshalIndent(results, "", " ")
			os.WriteFile(*out, rj, 0644)
		}
	}
}
