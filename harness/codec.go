package main

// Body codec, argument/reply types and the service used by the drivers.
// The codec doubles as a gate: the driver decides when a request is encoded
// (and whether that fails) and when a reply is decoded (completion order).

import (
	"encoding/binary"
	"errors"
	"fmt"
	"hash/fnv"
	"strconv"
	"strings"
	"sync"
)

const (
	magicArgs  = 0xA7
	magicReply = 0xB3
)

// Args is the request body. The reply is a function of (ID, Pad).
type Args struct {
	ID    int
	Fail  bool // handler returns an error "E<ID>:<text>"
	MFail bool // client cannot encode the request
	UFail bool // server cannot decode the arguments
	RFail bool // server cannot encode the reply
	Text  string
	Pad   []byte
}

// Reply is the response body.
type Reply struct {
	ID     int
	Digest uint64 // digest of the request's (ID, Pad)
	Pad    []byte // transformed copy of the request padding
}

func digest(id int, pad []byte) uint64 {
	h := fnv.New64a()
	var b [8]byte
	binary.LittleEndian.PutUint64(b[:], uint64(id))
	h.Write(b[:])
	h.Write(pad)
	return h.Sum64()
}

func xform(id int, pad []byte) []byte {
	out := make([]byte, len(pad))
	for i, c := range pad {
		out[i] = c ^ byte(id) ^ byte(i)
	}
	return out
}

func mkPad(id, n int) []byte {
	p := make([]byte, n)
	x := uint32(id*2654435761 + 12345)
	for i := range p {
		x = x*1664525 + 1013904223
		p[i] = byte(x >> 24)
	}
	return p
}

func encArgs(buf []byte, a *Args) []byte {
	n := 1 + 8 + 1 + 4 + len(a.Text) + len(a.Pad)
	var b []byte
	if cap(buf) >= n {
		b = buf[:n]
	} else {
		b = make([]byte, n)
	}
	b[0] = magicArgs
	binary.LittleEndian.PutUint64(b[1:], uint64(a.ID))
	var fl byte
	if a.Fail {
		fl |= 1
	}
	if a.UFail {
		fl |= 2
	}
	if a.RFail {
		fl |= 4
	}
	b[9] = fl
	binary.LittleEndian.PutUint32(b[10:], uint32(len(a.Text)))
	copy(b[14:], a.Text)
	copy(b[14+len(a.Text):], a.Pad)
	return b
}

func decArgs(d []byte, a *Args) error {
	if len(d) < 14 || d[0] != magicArgs {
		return errors.New("harness: bad args encoding")
	}
	a.ID = int(binary.LittleEndian.Uint64(d[1:]))
	fl := d[9]
	a.Fail, a.UFail, a.RFail = fl&1 != 0, fl&2 != 0, fl&4 != 0
	tl := int(binary.LittleEndian.Uint32(d[10:]))
	if 14+tl > len(d) {
		return errors.New("harness: bad args text length")
	}
	a.Text = string(d[14 : 14+tl])
	a.Pad = append([]byte(nil), d[14+tl:]...)
	return nil
}

func encReply(buf []byte, r *Reply) []byte {
	n := 1 + 8 + 8 + len(r.Pad)
	var b []byte
	if cap(buf) >= n {
		b = buf[:n]
	} else {
		b = make([]byte, n)
	}
	b[0] = magicReply
	binary.LittleEndian.PutUint64(b[1:], uint64(r.ID))
	binary.LittleEndian.PutUint64(b[9:], r.Digest)
	copy(b[17:], r.Pad)
	return b
}

func decReply(d []byte, r *Reply) error {
	if len(d) < 17 || d[0] != magicReply {
		return errors.New("harness: bad reply encoding")
	}
	r.ID = int(binary.LittleEndian.Uint64(d[1:]))
	r.Digest = binary.LittleEndian.Uint64(d[9:])
	r.Pad = append([]byte(nil), d[17:]...)
	return nil
}

// bodyID extracts the call id from an encoded body (0 if none).
func bodyID(b []byte) int {
	if len(b) >= 9 && (b[0] == magicArgs || b[0] == magicReply) {
		return int(binary.LittleEndian.Uint64(b[1:]))
	}
	return 0
}

func errText(id int, text string) string { return "E" + strconv.Itoa(id) + ":" + text }

// errID extracts the call id from an error text produced by the service.
func errID(s string) int {
	const missing = "can't find service Svc.Missing"
	if strings.HasPrefix(s, missing) {
		n, err := strconv.Atoi(s[len(missing):])
		if err != nil {
			return 0
		}
		return n
	}
	if !strings.HasPrefix(s, "E") {
		return 0
	}
	i := strings.IndexByte(s, ':')
	if i < 0 {
		return 0
	}
	n, err := strconv.Atoi(s[1:i])
	if err != nil {
		return 0
	}
	return n
}

var errMarshal = errors.New("harness: request cannot be encoded")
var errInjectedWrite = errors.New("harness: injected write failure")

// gate is a set of named rendez-vous points.
type gate struct {
	mu       sync.Mutex
	cond     *sync.Cond
	arrived  map[string]int
	decision map[string]int
	has      map[string]bool
	open     bool
	openDec  int
}

func newGate() *gate {
	g := &gate{arrived: map[string]int{}, decision: map[string]int{}, has: map[string]bool{}}
	g.cond = sync.NewCond(&g.mu)
	return g
}

// wait blocks until the key is released (or the gate is open) and returns the decision.
func (g *gate) wait(key string) int {
	g.mu.Lock()
	defer g.mu.Unlock()
	g.arrived[key]++
	g.cond.Broadcast()
	for {
		if g.has[key] {
			d := g.decision[key]
			delete(g.has, key)
			delete(g.decision, key)
			return d
		}
		if g.open {
			return g.openDec
		}
		g.cond.Wait()
	}
}

// waitOr is wait, given up when done is closed (ok = false).
func (g *gate) waitOr(key string, done <-chan struct{}) (int, bool) {
	stop := make(chan struct{})
	defer close(stop)
	cancelled := false
	go func() {
		select {
		case <-done:
			g.mu.Lock()
			cancelled = true
			g.cond.Broadcast()
			g.mu.Unlock()
		case <-stop:
		}
	}()
	g.mu.Lock()
	defer g.mu.Unlock()
	g.arrived[key]++
	g.cond.Broadcast()
	for {
		if g.has[key] {
			d := g.decision[key]
			delete(g.has, key)
			delete(g.decision, key)
			return d, true
		}
		if g.open {
			return g.openDec, true
		}
		if cancelled {
			return 0, false
		}
		g.cond.Wait()
	}
}

func (g *gate) release(key string, decision int) {
	g.mu.Lock()
	g.has[key] = true
	g.decision[key] = decision
	g.cond.Broadcast()
	g.mu.Unlock()
}

func (g *gate) openAll(decision int) {
	g.mu.Lock()
	g.open = true
	g.openDec = decision
	g.cond.Broadcast()
	g.mu.Unlock()
}

func (g *gate) arrivedCount(key string) int {
	g.mu.Lock()
	defer g.mu.Unlock()
	return g.arrived[key]
}

// hcodec implements rpc.Codec for Args/Reply.
type hcodec struct {
	client  bool
	marshal *gate // client: before a request is encoded; key = id
	finish  *gate // client: before a reply is decoded; key = id
}

const (
	decOK = iota
	decMFail
	decWFail
)

func key(id int) string { return strconv.Itoa(id) }

func (c *hcodec) Marshal(buf []byte, v interface{}) ([]byte, error) {
	switch x := v.(type) {
	case *Args:
		if c.marshal != nil {
			d := c.marshal.wait(key(x.ID))
			if d == decMFail {
				return nil, errMarshal
			}
		}
		if x.MFail {
			return nil, errMarshal
		}
		return encArgs(buf, x), nil
	case *Reply:
		if x.ID < 0 {
			return nil, fmt.Errorf("%s", errText(-x.ID, "reply cannot be encoded"))
		}
		return encReply(buf, x), nil
	case *StreamMsg:
		return encStreamMsg(buf, x), nil
	}
	return nil, fmt.Errorf("harness: cannot marshal %T", v)
}

func (c *hcodec) Unmarshal(data []byte, v interface{}) error {
	switch x := v.(type) {
	case *Args:
		if err := decArgs(data, x); err != nil {
			return err
		}
		if x.UFail {
			return fmt.Errorf("%s", errText(x.ID, "arguments cannot be decoded"))
		}
		return nil
	case *Reply:
		if c.finish != nil {
			c.finish.wait(key(bodyID(data)))
		}
		return decReply(data, x)
	case *StreamMsg:
		return decStreamMsg(data, x)
	}
	return fmt.Errorf("harness: cannot unmarshal %T", v)
}

// StreamMsg is a stream message body.
type StreamMsg struct {
	Stream int
	N      int
	Pad    []byte
}

func encStreamMsg(buf []byte, m *StreamMsg) []byte {
	n := 1 + 8 + 8 + len(m.Pad)
	var b []byte
	if cap(buf) >= n {
		b = buf[:n]
	} else {
		b = make([]byte, n)
	}
	b[0] = 0xC5
	binary.LittleEndian.PutUint64(b[1:], uint64(m.Stream))
	binary.LittleEndian.PutUint64(b[9:], uint64(m.N))
	copy(b[17:], m.Pad)
	return b
}

func decStreamMsg(d []byte, m *StreamMsg) error {
	if len(d) < 17 || d[0] != 0xC5 {
		return errors.New("harness: bad stream message encoding")
	}
	m.Stream = int(binary.LittleEndian.Uint64(d[1:]))
	m.N = int(binary.LittleEndian.Uint64(d[9:]))
	m.Pad = append([]byte(nil), d[17:]...)
	return nil
}

// Svc is the service registered with the server under test.
type Svc struct {
	run   *Run
	exec  *gate // key = id; nil: handlers return at once
	mu    sync.Mutex
	begun map[int]int
	ended map[int]int
	live  int
	maxLv int
	badAr int
}

func newSvc(run *Run, gated bool) *Svc {
	s := &Svc{run: run, begun: map[int]int{}, ended: map[int]int{}}
	if gated {
		s.exec = newGate()
	}
	return s
}

// Do is the unary handler.
func (s *Svc) Do(a *Args, r *Reply) error {
	argsOK := 1
	s.mu.Lock()
	s.begun[a.ID]++
	s.live++
	if s.live > s.maxLv {
		s.maxLv = s.live
	}
	live := s.live
	s.mu.Unlock()
	if s.run != nil {
		s.run.add(&Ev{Ev: "h.begin", C: a.ID, Seq: -1, A: argsOK, B: live, Sent: -1})
	}
	if s.exec != nil {
		s.exec.wait(key(a.ID))
	}
	r.ID = a.ID
	r.Digest = digest(a.ID, a.Pad)
	r.Pad = xform(a.ID, a.Pad)
	if a.RFail {
		r.ID = -a.ID
	}
	s.mu.Lock()
	s.ended[a.ID]++
	s.live--
	s.mu.Unlock()
	if s.run != nil {
		s.run.add(&Ev{Ev: "h.end", C: a.ID, Seq: -1, Sent: -1})
	}
	if a.Fail {
		return fmt.Errorf("%s", errText(a.ID, a.Text))
	}
	return nil
}
