package main

import (
	"bufio"
	"encoding/json"
	"flag"
	"fmt"
	"os"
	"sync"
)

func usage() {
	fmt.Fprintln(os.Stderr, "usage: vh <command> [flags]\n  replay   -in schedules.json -out trace.ndjson -res results.json [-par N]")
	os.Exit(2)
}

func main() {
	if len(os.Args) < 2 {
		usage()
	}
	installHook()
	switch os.Args[1] {
	case "replay":
		cmdReplay(os.Args[2:])
	default:
		if f, ok := commands[os.Args[1]]; ok {
			f(os.Args[2:])
			return
		}
		usage()
	}
}

var commands = map[string]func([]string){}

// cmdReplay executes schedules (JSON array) and writes one concatenated trace.
func cmdReplay(args []string) {
	fs := flag.NewFlagSet("replay", flag.ExitOnError)
	in := fs.String("in", "", "schedules JSON file")
	out := fs.String("out", "", "trace output (ndjson)")
	res := fs.String("res", "", "results output (json)")
	par := fs.Int("par", 8, "parallel runs")
	fs.Parse(args)
	data, err := os.ReadFile(*in)
	if err != nil {
		fmt.Fprintln(os.Stderr, err)
		os.Exit(2)
	}
	var scheds []Schedule
	if err := json.Unmarshal(data, &scheds); err != nil {
		fmt.Fprintln(os.Stderr, "bad schedules:", err)
		os.Exit(2)
	}
	prog, _ := os.Create(*out + ".progress")
	var progMu sync.Mutex
	mark := func(what, name string) {
		if prog != nil {
			progMu.Lock()
			fmt.Fprintf(prog, "%s %s\n", what, name)
			progMu.Unlock()
		}
	}
	results := make([]RunResult, len(scheds))
	traces := make([][]byte, len(scheds))
	sem := make(chan struct{}, *par)
	var wg sync.WaitGroup
	for i := range scheds {
		wg.Add(1)
		sem <- struct{}{}
		go func(i int) {
			defer wg.Done()
			defer func() { <-sem }()
			var buf bufWriter
			mark("start", scheds[i].Name)
			results[i] = runSchedule(scheds[i], &buf)
			traces[i] = buf.b
			mark("done", scheds[i].Name)
		}(i)
	}
	wg.Wait()
	f, err := os.Create(*out)
	if err != nil {
		fmt.Fprintln(os.Stderr, err)
		os.Exit(2)
	}
	bw := bufio.NewWriter(f)
	for _, t := range traces {
		bw.Write(t)
	}
	bw.Flush()
	f.Close()
	rj, _ := json.MarshalIndent(results, "", " ")
	os.WriteFile(*res, rj, 0644)
}

type bufWriter struct{ b []byte }

func (w *bufWriter) Write(p []byte) (int, error) { w.b = append(w.b, p...); return len(p), nil }
