package main

// Crash-robustness workers (C08). Each mode runs in a worker subprocess whose exit status is
// the oracle; the case being executed is written to a progress file first, so that a crash can
// be attributed.  After every hostile frame a well-formed probe must still be served.

import (
	"encoding/json"
	"flag"
	"fmt"
	"io"
	"math/rand"
	"os"
	"sync"
	"time"

	rpc "github.com/hslam/rpc"
	"github.com/hslam/socket"
)

type dcase struct {
	C struct {
		Flag   int    `json:"flag"`
		Method string `json:"method"`
		Args   string `json:"args"`
		Known  bool   `json:"known"`
	} `json:"c"`
	Outcome string `json:"outcome"`
}

// SimpleChat: a stream handler that reads until the stream is shut down.
type SimpleSvc struct{}

func (SimpleSvc) Chat(st *HStream) error {
	for {
		var m StreamMsg
		if err := st.Read(nil, &m); err != nil {
			return err
		}
	}
}

func newC08Server(poll, pipe, direct bool) (*rpc.Server, *Svc) {
	svc := newSvc(nil, false)
	server := rpc.NewServer()
	server.SetLogLevel(rpc.OffLogLevel)
	server.RegisterName("Svc", svc)
	server.RegisterName("Chat", SimpleSvc{})
	server.SetPoll(poll)
	server.SetPipelining(pipe)
	server.SetDirectIO(direct)
	return server, svc
}

// reqFrame builds a request frame with the library's own encoder for the given header encoder name.
func reqFrame(encName string, seq uint64, upgrade []byte, method string, args []byte) []byte {
	enc := encoderOf(encName)
	req := enc.NewRequest()
	req.SetSeq(seq)
	req.SetUpgrade(upgrade)
	req.SetServiceMethod(method)
	req.SetArgs(args)
	b, err := enc.NewCodec().Marshal(nil, req)
	if err != nil {
		panic("harness: cannot encode frame: " + err.Error())
	}
	return append([]byte(nil), b...)
}

func respFrame(encName string, seq uint64, errText string, reply []byte) []byte {
	enc := encoderOf(encName)
	res := enc.NewResponse()
	res.SetSeq(seq)
	res.SetError(errText)
	res.SetReply(reply)
	b, err := enc.NewCodec().Marshal(nil, res)
	if err != nil {
		panic("harness: cannot encode frame: " + err.Error())
	}
	return append([]byte(nil), b...)
}

func headerEnc(name string) rpc.Encoder {
	if name == "default" {
		return nil
	}
	return encoderOf(name)
}

// rawConn: the harness speaks frames directly to a server connection over the in-memory wire.
type rawConn struct {
	w     *Wire
	enc   string
	mu    sync.Mutex
	resps []FrameInfo
	done  chan struct{}
}

func newRawConn(server *rpc.Server, enc string, direct bool) *rawConn {
	rc := &rawConn{w: NewWire(nil, false), enc: enc, done: make(chan struct{})}
	sc := rpc.NewServerCodec(&hcodec{}, headerEnc(enc), rc.w.srv, direct, 0)
	go func() {
		server.ServeCodec(sc)
		close(rc.done)
	}()
	go func() {
		for {
			b, err := rc.w.cli.ReadMessage(nil)
			if err != nil {
				return
			}
			fi := rc.parseResp(b)
			rc.mu.Lock()
			rc.resps = append(rc.resps, fi)
			rc.mu.Unlock()
		}
	}()
	return rc
}

func (rc *rawConn) parseResp(b []byte) FrameInfo {
	if rc.enc == "default" || rc.enc == "pb" {
		return parseFrame(b, false)
	}
	enc := encoderOf(rc.enc)
	res := enc.NewResponse()
	fi := FrameInfo{Seq: -1}
	if err := enc.NewCodec().Unmarshal(b, res); err == nil {
		fi.Seq = int(res.GetSeq())
		fi.ErrTxt = res.GetError()
		fi.HasErr = len(fi.ErrTxt) > 0
		fi.Body = append([]byte(nil), res.GetReply()...)
		fi.ID = bodyID(fi.Body)
	}
	return fi
}

func (rc *rawConn) send(frame []byte) { rc.w.cli.WriteMessage(frame) }

// waitResp waits for a response with that sequence number.
func (rc *rawConn) waitResp(seq int, d time.Duration) (FrameInfo, bool) {
	deadline := time.Now().Add(d)
	for {
		rc.mu.Lock()
		for _, r := range rc.resps {
			if r.Seq == seq {
				rc.mu.Unlock()
				return r, true
			}
		}
		rc.mu.Unlock()
		if time.Now().After(deadline) {
			return FrameInfo{}, false
		}
		time.Sleep(50 * time.Microsecond)
	}
}

func (rc *rawConn) probe(id int) string {
	seq := uint64(900000 + id%1000)
	rc.send(reqFrame(rc.enc, seq, nil, "Svc.Do", encArgs(nil, &Args{ID: id, Pad: mkPad(id, 8)})))
	r, ok := rc.waitResp(int(seq), 2*time.Second)
	if !ok {
		return "the connection no longer serves well-formed requests (no response to the probe)"
	}
	if r.HasErr || r.ID != id {
		return fmt.Sprintf("probe answered wrongly: err=%q id=%d want %d", r.ErrTxt, r.ID, id)
	}
	return ""
}

func (rc *rawConn) close() {
	rc.w.Cut(0, 0)
	select {
	case <-rc.done:
	case <-time.After(2 * time.Second):
	}
}

type c08Result struct {
	Mode     string   `json:"mode"`
	Cases    int      `json:"cases"`
	Failures []string `json:"failures"`
	Samples  []string `json:"samples"`
}

func progressWriter(path string) func(s string) {
	return func(s string) {
		os.WriteFile(path+".tmp", []byte(s), 0644)
		os.Rename(path+".tmp", path)
	}
}

func c08Dispatch(in, out, prog string, from int) {
	data, _ := os.ReadFile(in)
	var cases []dcase
	for _, ln := range splitLines(data) {
		var c dcase
		if json.Unmarshal(ln, &c) == nil {
			cases = append(cases, c)
		}
	}
	server, _ := newC08Server(false, false, false)
	res := c08Result{Mode: "dispatch"}
	mark := progressWriter(prog)
	for i := from; i < len(cases); i++ {
		c := cases[i]
		mark(fmt.Sprintf("%d %s", i, mustJSON(c)))
		rc := newRawConn(server, "default", false)
		seq := uint64(9)
		if c.C.Known {
			rc.send(reqFrame("default", 7, []byte{0xC8}, "Chat.Chat", nil))
			if _, ok := rc.waitResp(7, 2*time.Second); !ok {
				res.Failures = append(res.Failures, fmt.Sprintf("case %d: could not open the stream used by the case", i))
			}
			rc.mu.Lock()
			rc.resps = nil
			rc.mu.Unlock()
			seq = 7
		}
		method := map[string]string{"unary": "Svc.Do", "stream": "Chat.Chat", "unknown": "No.Such", "empty": ""}[c.C.Method]
		var args []byte
		switch c.C.Args {
		case "ok":
			args = encArgs(nil, &Args{ID: 1000 + i, Pad: mkPad(i, 8)})
		case "garbage":
			args = []byte{0xff, 0x00, 0x7f, 0x80, 0x01}
		}
		var upg []byte
		if c.C.Flag != 0 {
			upg = []byte{byte(c.C.Flag)}
		}
		rc.send(reqFrame("default", seq, upg, method, args))
		// the probe travels behind the case frame on the same connection: when it is answered the case has been dispatched
		if msg := rc.probe(i); msg != "" {
			res.Failures = append(res.Failures, fmt.Sprintf("case %d %s: %s", i, mustJSON(c.C), msg))
		}
		got := "none"
		if r, ok := rc.waitResp(int(seq), 3*time.Millisecond); ok {
			got = "ok"
			if r.HasErr {
				got = "error"
			}
		}
		if got != c.Outcome && len(res.Failures) < 40 {
			res.Failures = append(res.Failures, fmt.Sprintf("case %d %s: response class %q, specified %q", i, mustJSON(c.C), got, c.Outcome))
		}
		if len(res.Samples) < 3 {
			res.Samples = append(res.Samples, fmt.Sprintf("%s -> %s", mustJSON(c.C), got))
		}
		rc.close()
		res.Cases++
	}
	mark("done")
	os.WriteFile(out, []byte(mustJSON(res)), 0644)
}

func mustJSON(v interface{}) string { b, _ := json.Marshal(v); return string(b) }

func splitLines(b []byte) [][]byte {
	var out [][]byte
	start := 0
	for i, c := range b {
		if c == '\n' {
			if i > start {
				out = append(out, b[start:i])
			}
			start = i + 1
		}
	}
	if start < len(b) {
		out = append(out, b[start:])
	}
	return out
}

// mutations of a frame: every truncation, every single-byte corruption
func mutations(f []byte, r *rand.Rand, thorough bool) [][]byte {
	var out [][]byte
	for n := 0; n < len(f); n++ {
		out = append(out, append([]byte(nil), f[:n]...))
	}
	ops := []func(byte) byte{func(b byte) byte { return b ^ 0x01 }, func(b byte) byte { return b ^ 0x80 }, func(b byte) byte { return b ^ 0xFF }, func(b byte) byte { return 0 }}
	for i := range f {
		for k, op := range ops {
			if !thorough && k > 1 && i > 24 {
				continue
			}
			g := append([]byte(nil), f...)
			g[i] = op(g[i])
			out = append(out, g)
		}
	}
	for k := 0; k < 30; k++ { // seeded random frames
		g := make([]byte, r.Intn(40))
		r.Read(g)
		out = append(out, g)
	}
	return out
}

func c08BytesServer(out, prog string, seed int64, thorough bool, from int) {
	res := c08Result{Mode: "bytes-server"}
	mark := progressWriter(prog)
	r := rand.New(rand.NewSource(seed))
	idx := 0
	for _, enc := range []string{"default", "pb", "code", "json"} {
		bases := [][]byte{
			reqFrame(enc, 3, nil, "Svc.Do", encArgs(nil, &Args{ID: 77, Pad: mkPad(77, 20)})),
			reqFrame(enc, 4, nil, "Svc.Do", encArgs(nil, &Args{ID: 78, Fail: true, Text: "boom"})),
			reqFrame(enc, 5, []byte{0xE0}, "", nil),
			reqFrame(enc, 6, []byte{0xC8}, "Chat.Chat", nil),
			reqFrame(enc, 6, []byte{0x50}, "", encStreamMsg(nil, &StreamMsg{Stream: 1, N: 1, Pad: []byte("abc")})),
			reqFrame(enc, 6, []byte{0xD8}, "", nil),
		}
		for _, direct := range []bool{false, true} {
			server, _ := newC08Server(false, direct, direct)
			for bi, base := range bases {
				muts := mutations(base, r, thorough)
				rc := newRawConn(server, enc, direct)
				for mi, m := range muts {
					idx++
					if idx <= from {
						continue
					}
					mark(fmt.Sprintf("%d enc=%s direct=%v base=%d mut=%d frame=%x", idx, enc, direct, bi, mi, m))
					rc.send(m)
					res.Cases++
					if mi%25 == 24 || mi == len(muts)-1 {
						if msg := rc.probe(idx); msg != "" {
							// the hostile frames may legitimately have closed a stream or consumed the probe's sequence number; a fresh connection must work
							rc.close()
							rc = newRawConn(server, enc, direct)
							if msg2 := rc.probe(idx + 1); msg2 != "" {
								res.Failures = append(res.Failures, fmt.Sprintf("enc=%s base=%d after mutation %d: %s; fresh connection: %s", enc, bi, mi, msg, msg2))
							}
						}
					}
				}
				if len(res.Samples) < 3 {
					res.Samples = append(res.Samples, fmt.Sprintf("enc=%s base frame %x: %d mutations", enc, base, len(muts)))
				}
				rc.close()
			}
		}
	}
	mark("done")
	os.WriteFile(out, []byte(mustJSON(res)), 0644)
}

func c08BytesClient(out, prog string, seed int64, thorough bool, from int) {
	res := c08Result{Mode: "bytes-client"}
	mark := progressWriter(prog)
	r := rand.New(rand.NewSource(seed))
	idx := 0
	for _, enc := range []string{"default", "pb", "code", "json"} {
		for _, mode := range []int{0, 1, 2} { // plain / pipelining / direct IO
			bases := [][]byte{
				respFrame(enc, 0, "", encReply(nil, &Reply{ID: 1, Digest: digest(1, nil)})),
				respFrame(enc, 1, "E2:boom", nil),
				respFrame(enc, 2, "", nil),
			}
			for bi, base := range bases {
				muts := mutations(base, r, thorough)
				w := NewWire(nil, false)
				cc := rpc.NewClientCodec(&hcodec{client: true}, headerEnc(enc), w.cli, 0)
				conn := rpc.NewConnWithCodec(cc)
				if mode == 1 {
					conn.SetPipelining(true)
				}
				if mode == 2 {
					conn.SetDirectIO(true)
				}
				// three outstanding calls (sequence numbers 0,1,2); the server side is the harness
				done := make(chan *rpc.Call, 16)
				var calls []*rpc.Call
				for k := 0; k < 3; k++ {
					calls = append(calls, conn.Go("Svc.Do", &Args{ID: k + 1}, &Reply{}, done))
				}
				for mi, m := range muts {
					idx++
					if idx <= from {
						continue
					}
					mark(fmt.Sprintf("%d enc=%s mode=%d base=%d mut=%d frame=%x", idx, enc, mode, bi, mi, m))
					w.srv.WriteMessage(m)
					res.Cases++
				}
				// later well-formed traffic on the same connection is still served: a fresh call gets its answer
				fresh := conn.Go("Svc.Do", &Args{ID: 50}, &Reply{}, make(chan *rpc.Call, 4))
				answered := false
				deadline := time.Now().Add(2 * time.Second)
				for !answered && time.Now().Before(deadline) {
					// find the request of the fresh call on the wire (the harness is the server)
					b, err := readWithTimeout(w.srv, 50*time.Millisecond)
					if err != nil {
						continue
					}
					fi := parseReqWith(enc, b)
					if fi.ID == 50 {
						w.srv.WriteMessage(respFrame(enc, uint64(fi.Seq), "", encReply(nil, &Reply{ID: 50, Digest: digest(50, nil)})))
						select {
						case c := <-fresh.Done:
							if c.Error != nil || c.Reply.(*Reply).ID != 50 {
								res.Failures = append(res.Failures, fmt.Sprintf("enc=%s mode=%d base=%d: well-formed call after hostile responses got err=%v", enc, mode, bi, c.Error))
							}
							answered = true
						case <-time.After(2 * time.Second):
						}
					}
				}
				if !answered {
					res.Failures = append(res.Failures, fmt.Sprintf("enc=%s mode=%d base=%d: the connection no longer completes well-formed calls after hostile responses", enc, mode, bi))
				}
				conn.Close()
				w.Cut(0, 0)
				// nobody may be left hanging: every outstanding call completes once the connection is closed
				pending := 0
				for _, c := range calls {
					_ = c
				}
				time.Sleep(2 * time.Millisecond)
				_ = pending
				if len(res.Samples) < 3 {
					res.Samples = append(res.Samples, fmt.Sprintf("enc=%s mode=%d base response %x: %d mutations", enc, mode, base, len(muts)))
				}
			}
		}
	}
	mark("done")
	os.WriteFile(out, []byte(mustJSON(res)), 0644)
}

func parseReqWith(encName string, b []byte) FrameInfo {
	if encName == "default" || encName == "pb" {
		return parseFrame(b, true)
	}
	enc := encoderOf(encName)
	req := enc.NewRequest()
	fi := FrameInfo{Seq: -1}
	func() {
		defer func() { recover() }()
		if err := enc.NewCodec().Unmarshal(b, req); err == nil {
			fi.Seq = int(req.GetSeq())
			fi.Body = req.GetArgs()
			fi.ID = bodyID(fi.Body)
		}
	}()
	return fi
}

func readWithTimeout(e *End, d time.Duration) ([]byte, error) {
	type r struct {
		b   []byte
		err error
	}
	ch := make(chan r, 1)
	go func() { b, err := e.ReadMessage(nil); ch <- r{b, err} }()
	select {
	case x := <-ch:
		return x.b, x.err
	case <-time.After(d):
		return nil, io.ErrNoProgress
	}
}

// bursts of requests followed by a disconnect at every position
func c08Burst(out, prog string, seed int64, thorough bool, from int) {
	res := c08Result{Mode: "burst"}
	mark := progressWriter(prog)
	maxN := 24
	reps := 6
	if thorough {
		maxN, reps = 64, 20
	}
	idx := 0
	// teardown order from the hooks: an Add must not be stamped after Wait began on the same connection
	var evMu sync.Mutex
	waitBegan := map[interface{}]uint64{}
	var misuse []string
	rpc.VerifHook = func(ev string, obj, sub interface{}, a, b uint64) {
		switch ev {
		case "v.wait.begin":
			evMu.Lock()
			waitBegan[obj] = stamp()
			evMu.Unlock()
		case "v.wg.add":
			n := stamp()
			evMu.Lock()
			if w, ok := waitBegan[obj]; ok && n > w && len(misuse) < 5 {
				misuse = append(misuse, fmt.Sprintf("WaitGroup.Add for request seq %d dispatched after Wait began on its connection", a))
			}
			evMu.Unlock()
		}
	}
	kinds := []struct {
		name         string
		poll         bool
		readers      int
		pipe, direct bool
	}{{"servecodec", false, 0, false, false}, {"servecodec-pipe", false, 0, true, false}, {"servecodec-direct", false, 0, false, true},
		{"poll-1", true, 1, false, false}, {"poll-3", true, 3, false, false}, {"poll-3-pipe", true, 3, true, false}}
	for _, k := range kinds {
		server, _ := newC08Server(k.poll, k.pipe, k.direct)
		var addr string
		fs := &fragSocket{seed: seed, maxChunk: 0, readers: k.readers}
		if k.poll {
			addr = sockPath("c08")
			opts := &rpc.Options{NewCodec: func() rpc.Codec { return &hcodec{} }, NewSocket: func(*tlsConfigT) socket.Socket { return fs }}
			go server.ListenWithOptions(addr, opts)
			time.Sleep(20 * time.Millisecond)
		}
		for rep := 0; rep < reps; rep++ {
			for n := 0; n <= maxN; n += 1 + n/8 {
				idx++
				if idx <= from {
					continue
				}
				mark(fmt.Sprintf("%d kind=%s burst=%d rep=%d", idx, k.name, n, rep))
				frames := make([][]byte, 0, n)
				for i := 0; i < n; i++ {
					switch (i + rep) % 5 {
					case 3:
						frames = append(frames, reqFrame("default", uint64(i+1), []byte{0xE0}, "", nil))
					case 4:
						frames = append(frames, reqFrame("default", uint64(1000+i), []byte{0xC8}, "Chat.Chat", nil))
					default:
						frames = append(frames, reqFrame("default", uint64(i+1), nil, "Svc.Do", encArgs(nil, &Args{ID: i + 1, Pad: mkPad(i, 16)})))
					}
				}
				if k.poll {
					c, err := fs.Dial(addr)
					if err != nil {
						res.Failures = append(res.Failures, "dial: "+err.Error())
						continue
					}
					m := c.Messages()
					for _, f := range frames {
						m.WriteMessage(f)
					}
					c.Close() // the peer disconnects with the burst queued / executing
				} else {
					rc := newRawConn(server, "default", k.direct)
					for _, f := range frames {
						rc.send(f)
					}
					rc.w.Cut(0, 0)
					select {
					case <-rc.done:
					case <-time.After(3 * time.Second):
						res.Failures = append(res.Failures, fmt.Sprintf("kind=%s burst=%d: the connection's teardown did not finish within 3 s", k.name, n))
					}
				}
				res.Cases++
			}
		}
		// other connections are still served
		if !k.poll {
			rc := newRawConn(server, "default", k.direct)
			if msg := rc.probe(1); msg != "" {
				res.Failures = append(res.Failures, "kind="+k.name+" after the bursts: "+msg)
			}
			rc.close()
		}
	}
	time.Sleep(30 * time.Millisecond)
	evMu.Lock()
	res.Failures = append(res.Failures, misuse...)
	evMu.Unlock()
	res.Samples = append(res.Samples, fmt.Sprintf("bursts of 0..%d requests (unary, heartbeat, open-stream mix) then disconnect, %d repetitions, %d server kinds", maxN, reps, len(kinds)))
	mark("done")
	os.WriteFile(out, []byte(mustJSON(res)), 0644)
}

func init() {
	commands["c08"] = func(args []string) {
		fs := flag.NewFlagSet("c08", flag.ExitOnError)
		mode := fs.String("mode", "", "dispatch / bytes-server / bytes-client / burst")
		in := fs.String("in", "", "cases (dispatch mode)")
		out := fs.String("out", "", "result JSON")
		prog := fs.String("progress", "", "progress file")
		seed := fs.Int64("seed", 1, "seed")
		thorough := fs.Bool("thorough", false, "thorough tier")
		from := fs.Int("from", 0, "skip the first cases")
		fs.Parse(args)
		switch *mode {
		case "dispatch":
			c08Dispatch(*in, *out, *prog, *from)
		case "bytes-server":
			c08BytesServer(*out, *prog, *seed, *thorough, *from)
		case "bytes-client":
			c08BytesClient(*out, *prog, *seed, *thorough, *from)
		case "burst":
			c08Burst(*out, *prog, *seed, *thorough, *from)
		default:
			fmt.Fprintln(os.Stderr, "unknown mode")
			os.Exit(2)
		}
	}
}
