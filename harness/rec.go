package main

// Recorder: receives hook events from the library (build tag verif) and events
// of the harness's own components, stamps them with one global sequence number
// and routes them to the Run they belong to.

import (
	"encoding/json"
	"fmt"
	"io"
	"runtime"
	"sort"
	"sync"
	"sync/atomic"

	rpc "github.com/hslam/rpc"
)

// Ev is one trace event. Every event carries the same fields so that the TLA+
// trace specification can read any of them without a presence test.
type Ev struct {
	N     uint64 `json:"n"`
	Ev    string `json:"ev"`
	C     int    `json:"c"`     // call id (0: none / unknown)
	Seq   int    `json:"seq"`   // sequence number on the connection (-1: none)
	A     int    `json:"a"`     // event specific
	B     int    `json:"b"`     // event specific
	K     string `json:"k"`     // event specific kind
	Sent  int    `json:"sent"`  // folded call.signal: 1 delivered, 0 dropped, -1 no signal
	Calls []int  `json:"calls"` // event specific list (swept calls ...)
	S     int    `json:"s"`     // stream id (0: none)
	M     int    `json:"m"`     // message number within a stream (0: none)
	raw   interface{}
	sub   interface{}
	rawA  uint64
	rawB  uint64
	gid   uint64
}

var gseq uint64

func stamp() uint64 { return atomic.AddUint64(&gseq, 1) }

// Run is one recorded execution (one connection pair, one transport, one client ...).
type Run struct {
	mu     sync.Mutex
	evs    []*Ev
	cond   *sync.Cond
	name   string
	onHook func(r *Run, e *Ev) // optional extra processing under r.mu (binding tables)
	// call binding (client connection runs)
	callOf   map[*rpc.Call]int // *Call -> call id, set at register/refuse
	seqOf    map[*rpc.Call]int
	kindOf   map[*rpc.Call]string
	pingWait []int // started, not yet registered pings (FIFO)
	strmWait []int // started, not yet registered stream-open calls
	clsWait  []int // started close-stream calls
	counts   map[string]int
	idBySeq  map[int]int
	kinds    map[int]string
}

func newRun(name string) *Run {
	r := &Run{name: name, callOf: map[*rpc.Call]int{}, seqOf: map[*rpc.Call]int{}, kindOf: map[*rpc.Call]string{}, counts: map[string]int{}, idBySeq: map[int]int{}}
	r.cond = sync.NewCond(&r.mu)
	return r
}

// add records an event; key is used by Await.
func (r *Run) add(e *Ev) {
	r.mu.Lock()
	e.N = stamp()
	if r.onHook != nil {
		r.onHook(r, e)
	}
	r.evs = append(r.evs, e)
	r.counts[evKey(e)]++
	r.mu.Unlock()
	r.cond.Broadcast()
}

func evKey(e *Ev) string { return fmt.Sprintf("%s/%d/%d", e.Ev, e.C, e.Seq) }

// Count returns how many events with that key have been recorded.
func (r *Run) Count(ev string, c, seq int) int {
	r.mu.Lock()
	defer r.mu.Unlock()
	return r.counts[fmt.Sprintf("%s/%d/%d", ev, c, seq)]
}

func (r *Run) CountEv(ev string) int {
	r.mu.Lock()
	defer r.mu.Unlock()
	n := 0
	for _, e := range r.evs {
		if e.Ev == ev {
			n++
		}
	}
	return n
}

func (r *Run) snapshot() []*Ev {
	r.mu.Lock()
	out := make([]*Ev, len(r.evs))
	copy(out, r.evs)
	r.mu.Unlock()
	sort.SliceStable(out, func(i, j int) bool { return out[i].N < out[j].N })
	return out
}

// ---- global routing -------------------------------------------------------

var (
	routeMu sync.RWMutex
	routes  = map[interface{}]*Run{}
	callRt  = map[*rpc.Call]*Run{}
	retired = map[interface{}]bool{}
)

func route(obj interface{}, r *Run) {
	routeMu.Lock()
	routes[obj] = r
	routeMu.Unlock()
}

func unroute(obj interface{}) {
	routeMu.Lock()
	delete(routes, obj)
	if _, ok := obj.(*rpc.Client); ok {
		retired[obj] = true // a goroutine of this client that is still winding down must not be adopted by a later run
	}
	routeMu.Unlock()
}

func lookup(obj interface{}) *Run {
	if obj == nil {
		return nil
	}
	routeMu.RLock()
	r := routes[obj]
	routeMu.RUnlock()
	return r
}

// gate hooks: name -> function called (outside any library lock) when the event fires.
var (
	gateMu sync.RWMutex
	gates  = map[interface{}]func(ev string, sub interface{}){}
)

func setGate(obj interface{}, f func(ev string, sub interface{})) {
	gateMu.Lock()
	if f == nil {
		delete(gates, obj)
	} else {
		gates[obj] = f
	}
	gateMu.Unlock()
}

func isGate(ev string) bool {
	n := len(ev)
	return n > 5 && ev[n-5:] == ".gate"
}

// adoption of objects whose background goroutine calls hooks before the constructor has returned
var (
	adoptMu   sync.Mutex
	adoptRun  *Run
	adoptGate func(ev string, sub interface{})
)

func adopt(obj interface{}) (*Run, func(ev string, sub interface{})) {
	if _, ok := obj.(*rpc.Client); !ok {
		return nil, nil
	}
	routeMu.RLock()
	old := retired[obj]
	routeMu.RUnlock()
	if old {
		return nil, nil
	}
	adoptMu.Lock()
	defer adoptMu.Unlock()
	if adoptRun == nil {
		return nil, nil
	}
	route(obj, adoptRun)
	setGate(obj, adoptGate)
	return adoptRun, adoptGate
}

func installHook() {
	rpc.VerifHook = hook
}

// goid returns the id of the calling goroutine (used to pair a completion site with the
// call.signal the same goroutine emits right after it).
func goid() uint64 {
	var buf [64]byte
	n := runtime.Stack(buf[:], false)
	// "goroutine 123 ["
	var id uint64
	for i := len("goroutine "); i < n; i++ {
		c := buf[i]
		if c < '0' || c > '9' {
			break
		}
		id = id*10 + uint64(c-'0')
	}
	return id
}

func hook(ev string, obj, sub interface{}, a, b uint64) {
	if isGate(ev) {
		gateMu.RLock()
		f := gates[obj]
		gateMu.RUnlock()
		if f == nil {
			_, f = adopt(obj)
		}
		if f != nil {
			f(ev, sub)
		}
		return
	}
	var r *Run
	if obj != nil {
		r = lookup(obj)
		if r == nil {
			r, _ = adopt(obj)
		}
	}
	call, _ := sub.(*rpc.Call)
	gid := goid()
	if r == nil && call != nil && ev == "call.signal" {
		// a completion signal follows, in the same goroutine, the site event that announces it (c.refuse, c.sweep, c.finish ...):
		// it belongs to the run of that event. (The *Call pointer alone does not say: Call objects are pooled process-wide and
		// may be in the hands of another run by the time an event is routed.)
		siteMu2.Lock()
		if ls, ok := lastSite[gid]; ok && ls.call == call {
			r = ls.run
		}
		siteMu2.Unlock()
	}
	if r == nil && call != nil {
		routeMu.RLock()
		r = callRt[call]
		routeMu.RUnlock()
	}
	if r == nil && sub != nil {
		r = lookup(sub)
		if r == nil {
			if c := rpc.VerifConn(sub); c != nil {
				r = lookup(c)
			}
		}
	}
	if r == nil {
		return
	}
	e := &Ev{Ev: ev, Seq: -1, Sent: -1, A: int(a & 0x7fffffff), B: int(b & 0x7fffffff), raw: obj, sub: sub}
	if call != nil && (ev == "c.register" || ev == "c.refuse") {
		routeMu.Lock()
		callRt[call] = r
		routeMu.Unlock()
	}
	if call != nil {
		switch ev {
		case "c.refuse", "c.unregister", "c.sweep", "c.errdone", "c.ackdone", "c.finish":
			siteMu2.Lock()
			if len(lastSite) > 4096 {
				lastSite = map[uint64]siteRef{}
			}
			lastSite[gid] = siteRef{run: r, call: call}
			siteMu2.Unlock()
		}
	}
	e.sub = sub
	e.raw = obj
	e.rawA, e.rawB = a, b
	e.gid = gid
	r.add(e)
}

type siteRef struct {
	run  *Run
	call *rpc.Call
}

var (
	siteMu2  sync.Mutex
	lastSite = map[uint64]siteRef{}
)

func dropCallRoutes(r *Run) {
	routeMu.Lock()
	for c, x := range callRt {
		if x == r {
			delete(callRt, c)
		}
	}
	routeMu.Unlock()
}

// ---- output ----------------------------------------------------------------

func writeTrace(w io.Writer, evs []*Ev) error {
	enc := json.NewEncoder(w)
	for _, e := range evs {
		if e.Calls == nil {
			e.Calls = []int{}
		}
		if err := enc.Encode(e); err != nil {
			return err
		}
	}
	return nil
}
