package main

// Driver for one client Conn <-> one server connection over the in-memory wire.
// It executes a schedule (the labelled actions of a TLC behaviour of RpcConn),
// performing the environment/controllable actions and waiting for the library's
// own steps, records the hook/wire/API trace and the final observations.

import (
	"context"
	"encoding/json"
	"fmt"
	"io"
	"strconv"
	"strings"
	"sync"
	"time"

	rpc "github.com/hslam/rpc"
)

type ConnCfg struct {
	CliPipe   bool  `json:"CliPipe"`
	CliDirect bool  `json:"CliDirect"`
	SrvPipe   bool  `json:"SrvPipe"`
	SrvDirect bool  `json:"SrvDirect"`
	Calls     []int `json:"Calls"`
	Pings     []int `json:"Pings"`
	CtxCalls  []int `json:"CtxCalls"`
	FailCalls []int `json:"FailCalls"`
	NoMethod  []int `json:"NoMethodCalls"` // subset of FailCalls issued for a method the server does not have
	PadSize   int   `json:"PadSize"`
}

type Step struct {
	A  string `json:"a"`
	C  int    `json:"c"`
	B  bool   `json:"b"`
	LA int    `json:"la"` // Cut: frames lost client->server
	LB int    `json:"lb"` // Cut: frames lost server->client
}

type Schedule struct {
	Name  string  `json:"name"`
	Cfg   ConnCfg `json:"cfg"`
	Steps []Step  `json:"steps"`
}

func inSet(s []int, x int) bool {
	for _, y := range s {
		if y == x {
			return true
		}
	}
	return false
}

type callState struct {
	id      int
	kind    string // call / ping / ctx
	call    *rpc.Call
	args    *Args
	reply   *Reply
	done    chan *rpc.Call
	mu      sync.Mutex
	nsig    int    // signals received on Done / returns of the blocking form
	first   string // outcome at the first signal
	firstV  int
	cancel  context.CancelFunc
	started bool
}

type ConnRun struct {
	*Run
	cfg      ConnCfg
	wire     *Wire
	conn     *rpc.Conn
	server   *rpc.Server
	svc      *Svc
	ccodec   *hcodec
	scodec   *hcodec
	marshal  *gate
	finish   *gate
	closeG   *gate
	sendGate *gate    // client: in send(), after the call was registered and the mutex released, before anything else of the call is read
	wfail    sync.Map // id -> true: next write of this call fails
	calls    map[int]*callState
	srvDone  chan struct{}
	notes    []string
	waitMs   int
	closeRes []string
	wg       sync.WaitGroup
}

func classify(err error, reply *Reply) (string, int) {
	switch {
	case err == nil:
		if reply != nil {
			return "ok", reply.ID
		}
		return "ok", 0
	case err == rpc.ErrShutdown:
		return "shutdown", 0
	case err == errMarshal, err == errInjectedWrite, err == io.EOF:
		return "werr", 0
	case err == errReset:
		return "ioerr", 0
	case err == context.Canceled, err == context.DeadlineExceeded:
		return "ctx", 0
	}
	s := err.Error()
	if id := errID(s); id != 0 {
		return "srverr", id
	}
	return "other:" + s, 0
}

func newConnRun(name string, cfg ConnCfg, gated bool) *ConnRun {
	r := &ConnRun{Run: newRun(name), cfg: cfg, calls: map[int]*callState{}, waitMs: 400}
	r.Run.onHook = r.bind
	r.wire = NewWire(r.Run, gated)
	if gated {
		r.marshal, r.finish, r.closeG = newGate(), newGate(), newGate()
		r.sendGate = newGate()
	}
	r.ccodec = &hcodec{client: true, marshal: r.marshal, finish: r.finish}
	r.scodec = &hcodec{}
	r.svc = newSvc(r.Run, gated)
	r.wire.cliWriteGate = func(info FrameInfo) error {
		if info.Class&0x20 != 0 && r.marshal != nil { // heartbeat: no body, gate here
			if d := r.marshal.wait("ping"); d == decWFail {
				return errInjectedWrite
			}
			return nil
		}
		if _, ok := r.wfail.Load(info.ID); ok && info.ID != 0 {
			r.wfail.Delete(info.ID)
			return errInjectedWrite
		}
		return nil
	}
	if gated {
		r.wire.cliCloseGate = func() { r.closeG.wait("close") }
	}
	// server
	r.server = rpc.NewServer()
	r.server.SetLogLevel(rpc.OffLogLevel)
	r.server.RegisterName("Svc", r.svc)
	r.server.SetPipelining(cfg.SrvPipe)
	r.server.SetDirectIO(cfg.SrvDirect)
	sc := rpc.NewServerCodec(r.scodec, nil, r.wire.srv, cfg.SrvDirect, 0)
	route(sc, r.Run)
	r.srvDone = make(chan struct{})
	go func() {
		r.server.ServeCodec(sc)
		close(r.srvDone)
	}()
	// client
	cc := rpc.NewClientCodec(r.ccodec, nil, r.wire.cli, 0)
	r.conn = rpc.NewConnWithCodec(cc)
	route(r.conn, r.Run)
	if r.sendGate != nil {
		setGate(r.conn, func(ev string, sub interface{}) {
			if ev == "c.send.gate" {
				// the goroutine has just emitted the c.register of the call it is sending
				if id := r.lastRegisteredBy(goid()); id != 0 {
					r.sendGate.wait(key(id))
				}
			}
		})
	}
	if cfg.CliPipe {
		r.conn.SetPipelining(true)
	}
	if cfg.CliDirect {
		r.conn.SetDirectIO(true)
	}
	return r
}

// bind resolves call identities at hook time (under Run.mu).
func (r *ConnRun) bind(run *Run, e *Ev) {
	call, _ := e.sub.(*rpc.Call)
	switch e.Ev {
	case "c.register", "c.refuse":
		upg := int(e.rawB)
		id := 0
		if call != nil {
			if a, ok := call.Args.(*Args); ok && a != nil {
				id = a.ID
			}
		}
		kind := "call"
		switch {
		case upg&0x20 != 0:
			kind = "ping"
			if len(run.pingWait) > 0 {
				id = run.pingWait[0]
				run.pingWait = run.pingWait[1:]
			}
		case upg&0x18 == 0x08:
			kind = "open"
		case upg&0x18 == 0x10:
			kind = "smsg"
		case upg&0x18 == 0x18:
			kind = "sclose"
		}
		e.K = kind
		e.C = id
		e.B = upg
		if e.Ev == "c.register" {
			e.Seq = int(e.rawA)
		}
		if call != nil {
			run.callOf[call] = id
			run.seqOf[call] = e.Seq
			run.kindOf[call] = kind
		}
		if e.Ev == "c.register" && kind != "smsg" && kind != "sclose" {
			run.idBySeq[e.Seq] = id
			run.kindBySeq(e.Seq, kind)
		}
	case "c.unregister", "c.sweep", "c.errdone", "c.ackdone", "c.finish", "c.dispatch", "call.signal", "c.ctx.ret":
		if call != nil {
			e.C = run.callOf[call]
			e.K = run.kindOf[call]
		}
		if e.Ev != "call.signal" && e.Ev != "c.sweep" && e.Ev != "c.ctx.ret" {
			e.Seq = int(e.rawA)
			// the sequence number identifies the call even if its *Call has been recycled since
			if id, ok := run.idBySeq[e.Seq]; ok && call != nil {
				e.C = id
				if k, ok := run.kinds[e.Seq]; ok {
					e.K = k
				}
			}
		}
		if e.Ev == "c.ctx.ret" && call != nil {
			// still owned by the caller at this point: the arguments identify the call
			if a, ok := call.Args.(*Args); ok && a != nil {
				e.C = a.ID
			}
		}
		if e.Ev == "c.dispatch" {
			if isNilCall(e.sub) {
				e.C = 0
				e.K = "none"
			}
		}
	case "c.dropshutdown", "v.dispatch", "v.respond", "v.handle", "v.wg.add":
		e.Seq = int(e.rawA)
	}
	// fold call.signal into the site event that precedes it
	switch e.Ev {
	case "c.refuse", "c.unregister", "c.sweep", "c.errdone", "c.ackdone", "c.finish":
		if call != nil {
			r.sites(call, e)
		}
	}
}

func (r *Run) kindBySeq(seq int, kind string) {
	if r.kinds == nil {
		r.kinds = map[int]string{}
	}
	r.kinds[seq] = kind
}

func isNilCall(x interface{}) bool {
	c, ok := x.(*rpc.Call)
	return !ok || c == nil
}

var siteMu sync.Mutex
var sitesOf = map[*rpc.Call][]*Ev{}

func (r *ConnRun) sites(call *rpc.Call, e *Ev) {
	siteMu.Lock()
	sitesOf[call] = append(sitesOf[call], e)
	siteMu.Unlock()
}

// foldSignals runs over the sorted events: each call.signal is attached to the most recent
// completion-site event emitted by the same goroutine for the same *Call that has no signal yet
// (a site hook is always followed, in its own goroutine, by the call.done() it announces).
func foldSignals(evs []*Ev) []*Ev {
	type k struct {
		gid uint64
		sub interface{}
	}
	open := map[k][]*Ev{}
	var out []*Ev
	for _, e := range evs {
		switch e.Ev {
		case "c.refuse", "c.unregister", "c.sweep", "c.errdone", "c.ackdone", "c.finish":
			if !isNilCall(e.sub) {
				kk := k{e.gid, e.sub}
				open[kk] = append(open[kk], e)
			}
			out = append(out, e)
		case "call.signal":
			kk := k{e.gid, e.sub}
			q := open[kk]
			if len(q) > 0 {
				q[len(q)-1].Sent = e.A
				open[kk] = q[:len(q)-1]
			} else {
				out = append(out, e) // a signal nobody announced
			}
		default:
			out = append(out, e)
		}
	}
	return out
}

// foldSweep merges c.eof, c.sweep*, c.swept into one c.eofsweep event.
func foldSweep(evs []*Ev) []*Ev {
	var out []*Ev
	var cur *Ev
	for _, e := range evs {
		switch e.Ev {
		case "c.eof":
			cur = &Ev{N: e.N, Ev: "c.eofsweep", Seq: -1, Sent: -1, A: 1 - e.A} // A = 1 for a non-EOF error
			out = append(out, cur)
		case "c.sweep":
			if cur != nil {
				cur.Calls = append(cur.Calls, e.C)
				if e.Sent != 1 {
					cur.K = cur.K + fmt.Sprintf("nosignal:%d ", e.C)
				}
			} else {
				out = append(out, e)
			}
		case "c.swept":
			if cur != nil {
				cur.B = e.A // entries left in the table
				cur = nil
			} else {
				out = append(out, e)
			}
		default:
			out = append(out, e)
		}
	}
	return out
}

func (r *ConnRun) note(f string, a ...interface{}) {
	r.mu.Lock()
	r.notes = append(r.notes, fmt.Sprintf(f, a...))
	r.mu.Unlock()
}

// await waits (bounded) until cond holds.
func (r *ConnRun) await(what string, cond func() bool) bool {
	deadline := time.Now().Add(time.Duration(r.waitMs) * time.Millisecond)
	for {
		if cond() {
			return true
		}
		if time.Now().After(deadline) {
			r.note("diverged: %s not observed", what)
			return false
		}
		time.Sleep(100 * time.Microsecond)
	}
}

func (r *ConnRun) kindOfCall(c int) string {
	switch {
	case inSet(r.cfg.Pings, c):
		return "ping"
	case inSet(r.cfg.CtxCalls, c):
		return "ctx"
	}
	return "call"
}

// method: calls of the NoMethod class name a method the server does not have (the call id is part of the name so that
// the error text identifies the call)
func (r *ConnRun) method(c int) string {
	if inSet(r.cfg.NoMethod, c) {
		return "Svc.Missing" + strconv.Itoa(c)
	}
	return "Svc.Do"
}

func (r *ConnRun) gkey(c int) string {
	if r.kindOfCall(c) == "ping" {
		return "ping"
	}
	return key(c)
}

func (r *ConnRun) start(c int) {
	cs := &callState{id: c, kind: r.kindOfCall(c), started: true}
	r.calls[c] = cs
	kindEv := cs.kind
	r.Run.mu.Lock()
	if cs.kind == "ping" {
		r.Run.pingWait = append(r.Run.pingWait, c)
	}
	r.Run.mu.Unlock()
	r.add(&Ev{Ev: "api.start", C: c, K: kindEv, Seq: -1, Sent: -1})
	signal := func(err error) {
		cs.mu.Lock()
		cs.nsig++
		if cs.nsig == 1 {
			cs.first, cs.firstV = classify(err, cs.reply)
		}
		cs.mu.Unlock()
	}
	switch cs.kind {
	case "ping":
		r.wg.Add(1)
		go func() {
			defer r.wg.Done()
			err := r.conn.Ping()
			if err == nil {
				cs.mu.Lock()
				cs.nsig++
				cs.first, cs.firstV = "ok", c
				cs.mu.Unlock()
			} else {
				signal(err)
			}
		}()
	case "ctx":
		cs.args = &Args{ID: c, Fail: inSet(r.cfg.FailCalls, c), Text: "boom", Pad: mkPad(c, r.cfg.PadSize)}
		cs.reply = &Reply{}
		ctx, cancel := context.WithCancel(context.Background())
		cs.cancel = cancel
		r.wg.Add(1)
		go func() {
			defer r.wg.Done()
			err := r.conn.CallWithContext(ctx, r.method(c), cs.args, cs.reply)
			signal(err)
		}()
	default:
		cs.args = &Args{ID: c, Fail: inSet(r.cfg.FailCalls, c), Text: "boom", Pad: mkPad(c, r.cfg.PadSize)}
		cs.reply = &Reply{}
		cs.done = make(chan *rpc.Call, 8)
		goCall := func() {
			cs.call = r.conn.Go(r.method(c), cs.args, cs.reply, cs.done)
		}
		// watcher: observes every signal
		r.wg.Add(1)
		stop := make(chan struct{})
		cs.cancel = func() { close(stop) }
		go func() {
			defer r.wg.Done()
			for {
				select {
				case call := <-cs.done:
					signal(call.Error)
				case <-stop:
					for {
						select {
						case call := <-cs.done:
							signal(call.Error)
						default:
							return
						}
					}
				}
			}
		}()
		if r.cfg.CliPipe {
			goCall() // does not block: the send runs on the write queue
		} else {
			r.wg.Add(1)
			go func() { defer r.wg.Done(); goCall() }()
		}
	}
	if !r.cfg.CliPipe && r.marshal != nil {
		// let the sender reach its gate (or be refused) so that registration order follows the schedule
		k := r.gkey(c)
		n0 := r.marshal.arrivedCount(k)
		_ = n0
		r.await(fmt.Sprintf("send of %d", c), func() bool {
			return r.sendGate.arrivedCount(key(c)) > 0 || r.marshal.arrivedCount(k) > 0 || r.Count("c.refuse", c, -1) > 0 || r.countSeqAny("c.unregister", c) > 0
		})
	}
}

// lastRegisteredBy returns the call id of the latest c.register emitted by goroutine gid
func (r *ConnRun) lastRegisteredBy(gid uint64) int {
	r.Run.mu.Lock()
	defer r.Run.mu.Unlock()
	for i := len(r.Run.evs) - 1; i >= 0; i-- {
		e := r.Run.evs[i]
		if e.Ev == "c.register" && e.gid == gid {
			return e.C
		}
	}
	return 0
}

// countHandle counts v.handle events of the request carrying call c
func (r *ConnRun) countHandle(c int) int {
	r.Run.mu.Lock()
	defer r.Run.mu.Unlock()
	n := 0
	for _, e := range r.Run.evs {
		if e.Ev == "v.handle" {
			if id, ok := r.Run.idBySeq[e.Seq]; ok && id == c {
				n++
			}
		}
	}
	return n
}

func (r *ConnRun) countSeqAny(ev string, c int) int {
	r.Run.mu.Lock()
	defer r.Run.mu.Unlock()
	n := 0
	for _, e := range r.Run.evs {
		if e.Ev == ev && e.C == c {
			n++
		}
	}
	return n
}

func (r *ConnRun) countEvK(ev, k string) int {
	r.Run.mu.Lock()
	defer r.Run.mu.Unlock()
	n := 0
	for _, e := range r.Run.evs {
		if e.Ev == ev && (k == "" || e.K == k) {
			n++
		}
	}
	return n
}

// exec performs one schedule step.
func (r *ConnRun) exec(st Step) {
	c := st.C
	switch st.A {
	case "Start":
		r.start(c)
	case "WqTake":
		// library step (no event of its own)
	case "Register":
		r.await(fmt.Sprintf("Register(%d)", c), func() bool { return r.countSeqAny("c.register", c)+r.countSeqAny("c.refuse", c) > 0 })
	case "Refuse":
		r.await(fmt.Sprintf("Refuse(%d)", c), func() bool { return r.countSeqAny("c.refuse", c)+r.countSeqAny("c.register", c) > 0 })
	case "WriteOK":
		if r.marshal != nil {
			r.sendGate.release(key(c), 0) // the sender proceeds from the point just after registration
			k := r.gkey(c)
			if r.await(fmt.Sprintf("write gate of %d", c), func() bool { return r.marshal.arrivedCount(k) > 0 }) {
				n0 := r.countWrite("c2s", c)
				r.marshal.release(k, decOK)
				r.await(fmt.Sprintf("WriteOK(%d)", c), func() bool {
					return r.countWrite("c2s", c) > n0 || r.countSeqAny("c.unregister", c) > 0
				})
			}
		}
	case "WriteFail":
		if r.marshal != nil {
			r.sendGate.release(key(c), 0) // the sender proceeds from the point just after registration
			k := r.gkey(c)
			if r.await(fmt.Sprintf("write gate of %d", c), func() bool { return r.marshal.arrivedCount(k) > 0 }) {
				if k != "ping" {
					r.wfail.Store(c, true)
				}
				r.marshal.release(k, decWFail)
				r.await(fmt.Sprintf("WriteFail(%d)", c), func() bool { return r.countSeqAny("c.unregister", c) > 0 })
			}
		}
	case "MarshalFail":
		if r.marshal != nil {
			r.sendGate.release(key(c), 0) // the sender proceeds from the point just after registration
			k := r.gkey(c)
			if r.await(fmt.Sprintf("marshal gate of %d", c), func() bool { return r.marshal.arrivedCount(k) > 0 }) {
				r.marshal.release(k, decMFail)
				r.await(fmt.Sprintf("MarshalFail(%d)", c), func() bool { return r.countSeqAny("c.unregister", c) > 0 })
			}
		}
	case "SrvRecv":
		n0 := r.CountEv("v.recv")
		if r.wire.Deliver(false) {
			r.await("SrvRecv", func() bool { return r.CountEv("v.recv") > n0 })
		} else {
			r.note("diverged: SrvRecv with nothing in flight")
		}
	case "SrvDecode":
		// library step: the decode worker processes what was received
		r.await("SrvDecode", func() bool { return r.CountEv("v.dispatch")+r.CountEv("v.drop") >= r.CountEv("v.recv") })
	case "SrvExecBegin":
		r.await(fmt.Sprintf("SrvExecBegin(%d)", c), func() bool { return r.Count("h.begin", c, -1) > 0 })
	case "SrvLookupFail":
		// library step: handleRequest finds no such method
		r.await(fmt.Sprintf("SrvLookupFail(%d)", c), func() bool { return r.countHandle(c) > 0 })
	case "SrvExecEnd":
		if r.svc.exec != nil {
			if r.await(fmt.Sprintf("handler gate of %d", c), func() bool { return r.svc.exec.arrivedCount(key(c)) > 0 }) {
				r.svc.exec.release(key(c), 0)
				r.await(fmt.Sprintf("SrvExecEnd(%d)", c), func() bool { return r.Count("h.end", c, -1) > 0 })
			}
		}
	case "SrvRespond":
		r.await(fmt.Sprintf("SrvRespond(%d)", c), func() bool { return r.countWrite("s2c", c) > 0 })
	case "SrvEOF":
		r.wire.DeliverEOF(false, io.EOF)
		r.await("SrvEOF", func() bool { return r.CountEv("v.eof") > 0 })
	case "ReaderRecv":
		n0 := r.CountEv("c.recv")
		if r.wire.Deliver(true) {
			r.await("ReaderRecv", func() bool { return r.CountEv("c.recv") > n0 })
		} else {
			r.note("diverged: ReaderRecv with nothing in flight")
		}
	case "ReaderDispatch":
		r.await("ReaderDispatch", func() bool {
			return r.CountEv("c.dispatch")+r.CountEv("c.dropshutdown")+r.CountEv("c.badframe") >= r.CountEv("c.recv")
		})
	case "Finish":
		if r.finish != nil && r.finish.arrivedCount(key(c)) > 0 {
			r.finish.release(key(c), 0)
		} else if r.finish != nil {
			// error / heartbeat completions are not gated; a reply may not have reached the gate yet
			r.await(fmt.Sprintf("finish gate of %d", c), func() bool {
				return r.finish.arrivedCount(key(c)) > 0 || r.completedSite(c)
			})
			if r.finish.arrivedCount(key(c)) > 0 {
				r.finish.release(key(c), 0)
			}
		}
		r.await(fmt.Sprintf("Finish(%d)", c), func() bool { return r.completedSite(c) })
	case "ReaderEOF":
		var err error = io.EOF
		if st.B {
			err = errReset
		}
		r.wire.DeliverEOF(true, err)
		r.await("ReaderEOF", func() bool { return r.CountEv("c.swept") > 0 })
	case "Cut":
		r.wire.Cut(st.LA, st.LB)
	case "Close1":
		r.wg.Add(1)
		go func() {
			defer r.wg.Done()
			err := r.conn.Close()
			r.mu.Lock()
			r.closeRes = append(r.closeRes, fmt.Sprint(err))
			r.mu.Unlock()
		}()
		r.await("Close1", func() bool { return r.CountEv("c.close") > 0 })
	case "CloseDup":
		err := r.conn.Close()
		r.mu.Lock()
		r.closeRes = append(r.closeRes, fmt.Sprint(err))
		r.mu.Unlock()
	case "Close2":
		if r.closeG != nil {
			if r.await("close gate", func() bool { return r.closeG.arrivedCount("close") > 0 }) {
				r.closeG.release("close", 0)
				r.await("Close2", func() bool { return r.CountEv("c.close2") > 0 })
			}
		}
	case "InjectDup":
		r.wire.mu.Lock()
		var fi *FrameInfo
		if n := len(r.wire.wrote); n > 0 {
			idx := n - 1
			if c > 0 {
				sq, has := r.seqByID(c)
				for i := range r.wire.wrote {
					if r.wire.wrote[i].ID == c || (has && r.wire.wrote[i].Seq == sq) {
						idx = i
					}
				}
			}
			f := r.wire.wrote[idx]
			fi = &f
		}
		r.wire.mu.Unlock()
		if fi != nil {
			r.wire.Inject(fi.Raw, &Ev{Ev: "env.dup", C: fi.ID, Seq: fi.Seq, A: fi.Class, Sent: -1})
		}
	case "InjectUnk":
		frame := []byte{0x08, 0xE8, 0x07} // seq = 1000
		cls := 0
		if st.B {
			frame = append(frame, 0x12, 0x02, 'x', 'x')
			cls = 1
		}
		r.wire.Inject(frame, &Ev{Ev: "env.unk", Seq: 1000, A: cls, Sent: -1})
	case "CtxCancel":
		if cs := r.calls[c]; cs != nil && cs.cancel != nil && cs.kind == "ctx" {
			cs.cancel()
			r.await(fmt.Sprintf("CtxCancel(%d)", c), func() bool { return r.countSeqAny("c.ctx.ret", c) > 0 })
		}
	case "CtxReturnDone":
		r.await(fmt.Sprintf("CtxReturnDone(%d)", c), func() bool { return r.countSeqAny("c.ctx.ret", c) > 0 })
	default:
		r.note("unknown step %s", st.A)
	}
}

func (r *ConnRun) seqByID(c int) (int, bool) {
	r.Run.mu.Lock()
	defer r.Run.mu.Unlock()
	for _, e := range r.Run.evs {
		if e.Ev == "c.register" && e.C == c {
			return e.Seq, true
		}
	}
	return 0, false
}

func (r *ConnRun) completedSite(c int) bool {
	return r.countSeqAny("c.finish", c)+r.countSeqAny("c.errdone", c)+r.countSeqAny("c.ackdone", c) > 0
}

func (r *ConnRun) countWrite(dir string, c int) int {
	r.Run.mu.Lock()
	defer r.Run.mu.Unlock()
	n := 0
	ping := r.kindOfCall(c) == "ping"
	for _, e := range r.Run.evs {
		if e.Ev == "w.write" && e.K == dir && (e.C == c || (ping && e.C == 0 && (dir == "s2c" || e.B&0x20 != 0))) {
			n++
		}
	}
	return n
}

func (r *ConnRun) allSignalled() bool {
	for _, cs := range r.calls {
		cs.mu.Lock()
		n := cs.nsig
		cs.mu.Unlock()
		if n == 0 {
			return false
		}
	}
	return true
}

// finalize lets everything run to completion, ends the connection, and records
// the final observations.
func (r *ConnRun) finalize(hangBound time.Duration) (hung []int) {
	// 1. free running
	if r.marshal != nil {
		r.sendGate.openAll(0)
		r.marshal.openAll(decOK)
		r.finish.openAll(0)
		r.closeG.openAll(0)
		r.svc.exec.openAll(0)
	}
	r.wire.Flush()
	short := time.Now().Add(300 * time.Millisecond)
	for !r.allSignalled() && time.Now().Before(short) {
		time.Sleep(200 * time.Microsecond)
	}
	// 2. end the connection
	r.add(&Ev{Ev: "obs.closing", Seq: -1, Sent: -1})
	err := r.conn.Close()
	r.mu.Lock()
	r.closeRes = append(r.closeRes, fmt.Sprint(err))
	r.mu.Unlock()
	r.wire.Cut(0, 0)
	deadline := time.Now().Add(hangBound)
	for time.Now().Before(deadline) {
		if r.allSignalled() && r.CountEv("c.closed") > 0 {
			break
		}
		time.Sleep(500 * time.Microsecond)
	}
	select {
	case <-r.srvDone:
	case <-time.After(hangBound):
		r.note("server connection did not finish")
	}
	time.Sleep(20 * time.Millisecond) // room for a late second signal
	// 3. observations
	for _, id := range r.cfg.Calls {
		cs := r.calls[id]
		if cs == nil {
			continue
		}
		if cs.kind == "call" && cs.cancel != nil {
			cs.cancel()
		}
	}
	waitDone := make(chan struct{})
	go func() { r.wg.Wait(); close(waitDone) }()
	select {
	case <-waitDone:
	case <-time.After(hangBound):
		r.note("harness goroutines still blocked in library calls")
	}
	for _, id := range r.cfg.Calls {
		cs := r.calls[id]
		if cs == nil {
			continue
		}
		cs.mu.Lock()
		n, first, firstV := cs.nsig, cs.first, cs.firstV
		cs.mu.Unlock()
		fin, finV := first, firstV
		if cs.kind == "call" && cs.call != nil && n > 0 {
			fin, finV = classify(cs.call.Error, cs.reply)
			if first == "srverr" && fin != "srverr" && cs.call.Error != nil && strings.HasPrefix(fin, "other:") {
				// same error object, text no longer what the server sent
				fin, finV = "srverr", -1
			}
		}
		digestOK := 1
		if fin == "ok" && cs.kind != "ping" {
			if cs.reply.Digest != digest(id, cs.args.Pad) || string(cs.reply.Pad) != string(xform(id, cs.args.Pad)) {
				digestOK = 0
			}
		}
		if n == 0 {
			hung = append(hung, id)
			first, fin = "none", "none"
		}
		r.add(&Ev{Ev: "obs.final", C: id, Seq: -1, A: n, B: digestOK, K: first + "/" + fin, Sent: finV, S: firstV})
	}
	r.add(&Ev{Ev: "obs.end", Seq: -1, Sent: -1, A: r.svc.maxLv})
	unroute(r.conn)
	setGate(r.conn, nil)
	dropCallRoutes(r.Run)
	return hung
}

// trace returns the folded event list.
func (r *ConnRun) trace() []*Ev {
	evs := r.snapshot()
	evs = foldSignals(evs)
	evs = foldSweep(evs)
	// look-ahead annotations (what the trace itself tells about choices the model leaves open):
	//  v.dispatch.A = number of handler executions this request got in this run
	//  c.dispatch.S = 1 if the error completion of this response ran on the dispatching goroutine
	//  v.dispatch.B = 1 if a request for an unknown method was answered without ever reaching handleRequest
	begins := map[int]int{}
	errGid := map[int]uint64{}
	handled := map[int]bool{}
	answered := map[int]bool{}
	for _, e := range evs {
		if e.Ev == "h.begin" {
			begins[e.C]++
		}
		if e.Ev == "v.handle" {
			handled[e.Seq] = true
		}
		if e.Ev == "w.write" && e.K == "s2c" {
			answered[e.Seq] = true
		}
		if e.Ev == "c.errdone" {
			errGid[e.Seq] = e.gid
		}
	}
	r.Run.mu.Lock()
	for _, e := range evs {
		switch e.Ev {
		case "v.dispatch":
			e.A = 0
			e.B = 0
			if id, ok := r.Run.idBySeq[e.Seq]; ok {
				e.A = begins[id]
				e.C = id
				if inSet(r.cfg.NoMethod, id) && !handled[e.Seq] && answered[e.Seq] {
					e.B = 1
				}
			}
		case "v.handle":
			if id, ok := r.Run.idBySeq[e.Seq]; ok {
				e.C = id
			}
		case "c.dispatch":
			e.S = 0
			if g, ok := errGid[e.Seq]; ok && g == e.gid && e.B%2 == 1 {
				e.S = 1
			}
		}
	}
	r.Run.mu.Unlock()
	var out []*Ev
	for _, e := range evs {
		switch e.Ev {
		case "v.respond", "v.wg.add", "v.wait.begin", "v.wait.end", "v.codec.closed", "v.done", "c.closed":
			continue // not modelled by the unary trace spec (teardown is checked by its own spec)
		case "v.handle":
			if !inSet(r.cfg.NoMethod, e.C) {
				continue // handleRequest of an ordinary request: its handler's h.begin is the modelled step
			}
		}
		if e.Ev == "w.close" && e.K != "cli" {
			continue
		}
		out = append(out, e)
	}
	return out
}

type RunResult struct {
	Name   string   `json:"name"`
	Cfg    ConnCfg  `json:"cfg"`
	Notes  []string `json:"notes"`
	Hung   []int    `json:"hung"`
	Events int      `json:"events"`
	Close  []string `json:"close"`
}

func runSchedule(s Schedule, w io.Writer) RunResult {
	r := newConnRun(s.Name, s.Cfg, true)
	cfgJSON, _ := json.Marshal(s.Cfg)
	for _, st := range s.Steps {
		r.exec(st)
	}
	hung := r.finalize(3 * time.Second)
	evs := r.trace()
	hdr := &Ev{Ev: "reset", K: string(cfgJSON), Seq: -1, Sent: -1}
	all := append([]*Ev{hdr}, evs...)
	writeTrace(w, all)
	return RunResult{Name: s.Name, Cfg: s.Cfg, Notes: r.notes, Hung: hung, Events: len(evs), Close: r.closeRes}
}

func modeString(c ConnCfg) string {
	b := func(x bool) string {
		if x {
			return "1"
		}
		return "0"
	}
	return strings.Join([]string{b(c.CliPipe), b(c.CliDirect), b(c.SrvPipe), b(c.SrvDirect)}, "")
}
