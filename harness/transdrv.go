package main

// Driver for the real rpc.Transport: in-process servers per address reached through
// Transport.Dial (in-memory wire), housekeeping passes released one at a time through
// the t.tick.gate hook, callers held between getConn and registration by t.got.gate,
// handlers held by the service gate.  Executes TLC behaviours of Transport.tla and
// records the pool-decision trace (all decisions are stamped under connsMu).

import (
	"context"
	"encoding/json"
	"errors"
	"flag"
	"fmt"
	"os"
	"sync"
	"sync/atomic"
	"time"

	rpc "github.com/hslam/rpc"
)

type TransCfg struct {
	Addrs       []string `json:"Addrs"`
	MaxConns    int      `json:"MaxConns"`
	MaxIdle     int      `json:"MaxIdle"`
	KeepAlive   int      `json:"KeepAlive"` // clock units
	IdleTO      int      `json:"IdleTO"`
	UnitMs      int      `json:"UnitMs"`
	RawMaxConns int      `json:"RawMaxConns"` // value given to the Transport (may be <= 0: normalisation)
	RawMaxIdle  int      `json:"RawMaxIdle"`
	UseRaw      bool     `json:"UseRaw"`
	IOErr       bool     `json:"IOErr"`    // dropped connections end with a read error other than EOF at the client
	CloseErr    bool     `json:"CloseErr"` // closing a connection whose peer is gone reports an error (as a TLS connection does)
	Forms       []string `json:"Forms"`    // call forms the callers rotate through: call (default) / go / rt / stream
}

type TStep struct {
	A    string `json:"a"`
	K    int    `json:"k"`
	Addr string `json:"addr"`
	Ctx  bool   `json:"ctx"` // Get: the call is made with CallWithContext (a later Expire step ends its context)
}

// deadlineCtx is a context whose deadline "passes" when the schedule says so.
type deadlineCtx struct {
	done chan struct{}
	once sync.Once
}

func newDeadlineCtx() *deadlineCtx                 { return &deadlineCtx{done: make(chan struct{})} }
func (c *deadlineCtx) Deadline() (time.Time, bool) { return time.Time{}, false }
func (c *deadlineCtx) Done() <-chan struct{}       { return c.done }
func (c *deadlineCtx) Err() error {
	select {
	case <-c.done:
		return context.DeadlineExceeded
	default:
		return nil
	}
}
func (c *deadlineCtx) Value(key interface{}) interface{} { return nil }
func (c *deadlineCtx) expire()                           { c.once.Do(func() { close(c.done) }) }

type TSchedule struct {
	Name  string   `json:"name"`
	Cfg   TransCfg `json:"cfg"`
	Steps []TStep  `json:"steps"`
}

type tsrv struct {
	addr   string
	up     bool
	wires  []*Wire
	server *rpc.Server
	svc    *TSvc
}

// TSvc answers with the identity of the server (address) so that the caller can check where its call went.
type TSvc struct {
	addr string
	gate *gate
	run  *Run
	mu   sync.Mutex
	exec map[int]int
	done map[int]int
}

type TArgs struct {
	ID int
}
type TReply struct {
	ID   int
	Addr string
}

// TStream is the stream handler's view of a stream.
type TStream struct{ s rpc.Stream }

func (h *TStream) Connect(s rpc.Stream) error { h.s = s; return nil }

// Chat: the first message names the call; the handler then waits at the gate like Do, answers one message and returns.
func (s *TSvc) Chat(st *TStream) error {
	var a TArgs
	if err := st.s.ReadMessage(nil, &a); err != nil {
		return err
	}
	s.mu.Lock()
	s.exec[a.ID]++
	s.mu.Unlock()
	if s.gate != nil {
		s.gate.wait(key(a.ID))
	}
	return st.s.WriteMessage(&TReply{ID: a.ID, Addr: s.addr})
}

func (s *TSvc) Do(a *TArgs, r *TReply) error {
	s.mu.Lock()
	s.exec[a.ID]++
	s.mu.Unlock()
	if s.gate != nil {
		s.gate.wait(key(a.ID))
	}
	r.ID = a.ID
	r.Addr = s.addr
	s.mu.Lock()
	if s.done == nil {
		s.done = map[int]int{}
	}
	s.done[a.ID]++
	s.mu.Unlock()
	return nil
}

func (s *TSvc) doneCount(id int) int {
	s.mu.Lock()
	defer s.mu.Unlock()
	return s.done[id]
}

type tcaller struct {
	k         int
	n         int // calls made
	cur       int // id of the call in progress
	addr      string
	gid       uint64
	done      chan struct{}
	err       error
	reply     TReply
	running   bool
	got0      int // arrivals at the got gate before this call started
	dctx      *deadlineCtx
	abandoned int // id of the call the caller abandoned at its deadline and whose handler is still held (0: none)
}

type TransRun struct {
	*Run
	cfg       TransCfg
	t         *rpc.Transport
	mu2       sync.Mutex
	servers   map[string]*tsrv
	connID    map[*rpc.Conn]int
	connAddr  map[*rpc.Conn]string
	connWire  map[*rpc.Conn]*Wire
	nextID    int
	gotGate   *gate
	tickGate  *gate
	callers   map[int]*tcaller
	gidK      sync.Map // goroutine id -> caller k
	notes     []string
	waitMs    int
	stopWatch chan struct{} // closed at the end of the run: watchers of Done channels stop
	t0        time.Time
	opened    int64
	gated     bool
	brokenW   []*Wire
}

var burstID int64

var errDown = errors.New("harness: server down")

type jsonCodec struct{}

func (jsonCodec) Marshal(buf []byte, v interface{}) ([]byte, error) { return json.Marshal(v) }
func (jsonCodec) Unmarshal(data []byte, v interface{}) error        { return json.Unmarshal(data, v) }

func newTransRun(name string, cfg TransCfg, gated bool) *TransRun {
	r := &TransRun{Run: newRun(name), cfg: cfg, servers: map[string]*tsrv{}, connID: map[*rpc.Conn]int{}, connAddr: map[*rpc.Conn]string{},
		connWire: map[*rpc.Conn]*Wire{}, callers: map[int]*tcaller{}, waitMs: 400, t0: time.Now(), gated: gated, stopWatch: make(chan struct{})}
	r.Run.onHook = r.bind
	if cfg.UnitMs <= 0 {
		cfg.UnitMs = 6
		r.cfg.UnitMs = 6
	}
	unit := time.Duration(cfg.UnitMs) * time.Millisecond
	if gated {
		r.gotGate, r.tickGate = newGate(), newGate()
	}
	for _, a := range cfg.Addrs {
		s := &tsrv{addr: a, up: true}
		s.svc = &TSvc{addr: a, exec: map[int]int{}, run: r.Run}
		if gated {
			s.svc.gate = newGate()
		}
		s.server = rpc.NewServer()
		s.server.SetLogLevel(rpc.OffLogLevel)
		s.server.RegisterName("T", s.svc)
		r.servers[a] = s
	}
	mc, mi := cfg.MaxConns, cfg.MaxIdle
	if cfg.UseRaw {
		mc, mi = cfg.RawMaxConns, cfg.RawMaxIdle
	}
	r.t = &rpc.Transport{
		MaxConnsPerHost:     mc,
		MaxIdleConnsPerHost: mi,
		KeepAlive:           time.Duration(cfg.KeepAlive)*unit + unit/2,
		IdleConnTimeout:     time.Duration(cfg.IdleTO)*unit + unit/2,
		Network:             "mem",
		Codec:               "json",
	}
	r.t.Dial = r.dial
	if gated {
		r.t.VerifSetTicker(200 * time.Microsecond)
	} else {
		r.t.VerifSetTicker(unit / 3)
	}
	route(r.t, r.Run)
	if gated {
		setGate(r.t, func(ev string, sub interface{}) {
			switch ev {
			case "t.tick.gate":
				r.tickGate.wait("tick")
			case "t.got.gate":
				if k, ok := r.gidK.Load(goid()); ok {
					r.gotGate.wait(key(k.(int)))
				}
			}
		})
	}
	return r
}

func (r *TransRun) dial(network, address, codec string) (*rpc.Conn, error) {
	r.mu2.Lock()
	s := r.servers[address]
	if s == nil || !s.up {
		r.mu2.Unlock()
		return nil, errDown
	}
	w := NewWire(nil, false)
	w.closeErr = r.cfg.CloseErr
	s.wires = append(s.wires, w)
	defer time.Sleep(300 * time.Microsecond)
	r.nextID++
	id := r.nextID
	r.mu2.Unlock()
	sc := rpc.NewServerCodec(jsonCodec{}, nil, w.srv, false, 0)
	go s.server.ServeCodec(sc)
	cc := rpc.NewClientCodec(jsonCodec{}, nil, w.cli, 0)
	conn := rpc.NewConnWithCodec(cc)
	r.mu2.Lock()
	r.connID[conn] = id
	r.connAddr[conn] = address
	r.connWire[conn] = w
	r.mu2.Unlock()
	atomic.AddInt64(&r.opened, 1)
	route(conn, r.Run)
	return conn, nil
}

func (r *TransRun) idOf(x interface{}) int {
	c := rpc.VerifConn(x)
	if c == nil {
		return 0
	}
	r.mu2.Lock()
	defer r.mu2.Unlock()
	return r.connID[c]
}

func (r *TransRun) addrIdx(h uint64) int {
	for i, a := range r.cfg.Addrs {
		if rpc.VerifStr(a) == h {
			return i + 1
		}
	}
	return 0
}

// bind: resolve connection ids / addresses at hook time.
func (r *TransRun) bind(run *Run, e *Ev) {
	switch e.Ev {
	case "t.get", "t.idle.deq":
		e.S = r.idOf(e.sub)
		e.A = r.addrIdx(e.rawA)
		e.B = int(e.rawB) // path
		if k, ok := r.gidK.Load(e.gid); ok {
			e.C = k.(int)
		}
	case "t.dial":
		e.S = r.idOf(e.sub)
		e.A = r.addrIdx(e.rawA)
		e.B = int(e.rawB) // ok
		if k, ok := r.gidK.Load(e.gid); ok {
			e.C = k.(int)
		}
	case "t.dead":
		e.S = r.idOf(e.sub)
	case "t.retire", "t.overflow.close", "t.idle.close", "t.closeidle.active", "t.closeidle.idle", "t.close.conn", "t.idle.spare":
		e.S = r.idOf(e.sub)
		e.B = int(e.rawB) // NumCalls at the decision
		e.A = 0
	case "t.tick":
		e.A = int(time.Since(r.t0) / time.Millisecond)
	case "c.close", "c.close.dup", "c.register", "c.refuse", "c.eofsweep", "c.eof":
		e.S = r.idOf(e.raw)
	}
}

func (r *TransRun) note(f string, a ...interface{}) {
	r.mu.Lock()
	r.notes = append(r.notes, fmt.Sprintf(f, a...))
	r.mu.Unlock()
}

func (r *TransRun) await(what string, cond func() bool) bool {
	deadline := time.Now().Add(time.Duration(r.waitMs) * time.Millisecond)
	for {
		if cond() {
			return true
		}
		if time.Now().After(deadline) {
			r.note("diverged: %s not observed", what)
			return false
		}
		time.Sleep(100 * time.Microsecond)
	}
}

func (r *TransRun) countC(ev string, k int) int {
	r.Run.mu.Lock()
	defer r.Run.mu.Unlock()
	n := 0
	for _, e := range r.Run.evs {
		if e.Ev == ev && e.C == k {
			n++
		}
	}
	return n
}

func (r *TransRun) startCall(k int, addr string, withCtx bool) {
	c := r.callers[k]
	if c == nil {
		c = &tcaller{k: k}
		r.callers[k] = c
	}
	if c.running {
		r.note("caller %d still busy", k)
		return
	}
	c.n++
	c.cur = k*1000 + c.n
	c.addr = addr
	c.dctx = nil
	if withCtx {
		c.dctx = newDeadlineCtx()
	}
	c.running = true
	c.done = make(chan struct{})
	c.reply = TReply{}
	id := c.cur
	if r.gotGate != nil {
		c.got0 = r.gotGate.arrivedCount(key(k))
	}
	n0 := r.countC("t.get", k) + r.countC("t.dial", k)
	r.add(&Ev{Ev: "api.call", C: k, A: r.addrIdxByName(addr), Seq: -1, Sent: -1, S: id})
	ready := make(chan struct{})
	go func() {
		g := goid()
		r.gidK.Store(g, k)
		close(ready)
		var err error
		form := "call"
		if len(r.cfg.Forms) > 0 {
			form = r.cfg.Forms[(c.n-1)%len(r.cfg.Forms)]
		}
		streamEnded := false
		switch {
		case c.dctx != nil:
			err = r.t.CallWithContext(c.dctx, addr, "T.Do", &TArgs{ID: id}, &c.reply)
		case form == "go" || form == "rt":
			// asynchronous forms: the call must be signalled exactly once, whatever happens to the connection
			done := make(chan *rpc.Call, 8)
			var call *rpc.Call
			if form == "go" {
				call = r.t.Go(addr, "T.Do", &TArgs{ID: id}, &c.reply, done)
			} else {
				call = &rpc.Call{ServiceMethod: "T.Do", Args: &TArgs{ID: id}, Reply: &c.reply, Done: done}
				r.t.RoundTrip(addr, call)
			}
			<-done
			err = call.Error
			go func() { // any further signal on the same Done channel is a second completion
				select {
				case <-done:
					r.add(&Ev{Ev: "obs.dupsignal", C: k, Seq: -1, Sent: -1, S: id})
				case <-r.stopWatch:
				}
			}()
		case form == "stream":
			var st rpc.Stream
			st, err = r.t.NewStream(addr, "T.Chat")
			if err == nil {
				if err = st.WriteMessage(&TArgs{ID: id}); err == nil {
					err = st.ReadMessage(nil, &c.reply)
				}
				if err != nil {
					streamEnded = true // the stream broke with its connection: not an answer of getConn / of the call forms R3 names
				}
				st.Close()
			}
		default:
			err = r.t.Call(addr, "T.Do", &TArgs{ID: id}, &c.reply)
		}
		r.gidK.Delete(g)
		c.err = err
		kind := 0
		switch err {
		case nil:
			kind = 0
		case rpc.ErrShutdown:
			kind = 1
		case rpc.ErrDial:
			kind = 2
		case context.DeadlineExceeded:
			kind = 4
		default:
			kind = 3
		}
		if streamEnded {
			kind = 5
		}
		if err == errReset {
			// the connection's own read error, passed through: fine for a call that was in flight when the connection ended,
			// not for one that was handed the connection afterwards (that one must be refused with ErrShutdown, or the
			// Transport never learns that the connection is dead)
			kind = 6
			if r.startedAfterDrop(k, id) {
				kind = 7
			}
		}
		right := 1
		if err == nil && (c.reply.Addr != addr || c.reply.ID != id) {
			right = 0
		}
		fk := form
		if c.dctx != nil {
			fk = "ctx"
		}
		r.add(&Ev{Ev: "api.ret", C: k, A: kind, B: right, K: fk, Seq: -1, Sent: -1, S: id})
		close(c.done)
	}()
	<-ready
	// getConn's decision (or the dial failure) is the first thing the call does
	r.await(fmt.Sprintf("getConn of caller %d", k), func() bool {
		if r.countC("t.get", k)+r.countC("t.dial", k) > n0 {
			return true
		}
		select {
		case <-c.done:
			return true
		default:
			return false
		}
	})
}

// startedAfterDrop: was the connection this call was handed already dropped by the environment when the call started?
func (r *TransRun) startedAfterDrop(k, id int) bool {
	r.Run.mu.Lock()
	defer r.Run.mu.Unlock()
	callAt, conn := -1, 0
	for i, e := range r.Run.evs {
		if e.Ev == "api.call" && e.C == k && e.S == id {
			callAt = i
		}
		if callAt >= 0 && (e.Ev == "t.get" || e.Ev == "t.dial") && e.C == k && e.S != 0 {
			conn = e.S
		}
	}
	if callAt < 0 || conn == 0 {
		return false
	}
	for i, e := range r.Run.evs {
		if e.Ev == "env.drop" && e.S == conn && i < callAt {
			return true
		}
	}
	return false
}

// countReg: has the current call of caller k been registered (api.reg seen for it)?
func (r *TransRun) countReg(k, cur int) bool {
	r.Run.mu.Lock()
	defer r.Run.mu.Unlock()
	n := 0
	for _, e := range r.Run.evs {
		if e.Ev == "api.reg" && e.C == k {
			n++
		}
		if e.Ev == "api.ret" && e.C == k && n > 0 {
			n--
		}
	}
	return n > 0
}

func (r *TransRun) lastConnOf(k int) int {
	r.Run.mu.Lock()
	defer r.Run.mu.Unlock()
	id := 0
	for _, e := range r.Run.evs {
		if e.Ev == "t.get" && e.C == k {
			id = e.S
		}
	}
	return id
}

func (r *TransRun) addrIdxByName(a string) int {
	for i, x := range r.cfg.Addrs {
		if x == a {
			return i + 1
		}
	}
	return 0
}

func (r *TransRun) finished(k int) bool {
	c := r.callers[k]
	if c == nil || !c.running {
		return true
	}
	select {
	case <-c.done:
		c.running = false
		return true
	default:
		return false
	}
}

func (r *TransRun) exec(st TStep) {
	unit := time.Duration(r.cfg.UnitMs) * time.Millisecond
	switch st.A {
	case "Get":
		r.startCall(st.K, st.Addr, st.Ctx)
	case "Expire":
		// the context of the caller's call in flight ends: the caller must return at once with the context's error; the
		// handler is then released so that the abandoned call's late answer is discarded before the next step
		c := r.callers[st.K]
		if c == nil || !c.running || c.dctx == nil {
			return
		}
		c.dctx.expire()
		r.await("return of the caller whose context ended", func() bool { return r.finished(st.K) })
		c.abandoned = c.cur
	case "LateAnswer":
		// the server gets done with the request of the caller's abandoned call; its late answer is read and discarded
		c := r.callers[st.K]
		if c == nil || c.abandoned == 0 {
			return
		}
		id := c.abandoned
		c.abandoned = 0
		if s := r.servers[c.addr]; s != nil && s.svc.gate != nil {
			n0 := s.svc.doneCount(id)
			s.svc.gate.release(key(id), 0)
			r.await("handler of the abandoned call", func() bool { return s.svc.doneCount(id) > n0 })
		}
		time.Sleep(3 * time.Millisecond) // the answer travels and is dropped by the reader
		r.add(&Ev{Ev: "env.late", C: st.K, Seq: -1, Sent: -1})
	case "Register":
		if r.gotGate != nil {
			c := r.callers[st.K]
			if c == nil || !c.running {
				return
			}
			if r.await("got gate", func() bool { return r.gotGate.arrivedCount(key(st.K)) > c.got0 || r.finished(st.K) }) && !r.finished(st.K) {
				r.gotGate.release(key(st.K), 0)
				// registered (request reached the handler gate) or failed at once
				s := r.servers[c.addr]
				if r.await("Register", func() bool { return s.svc.gate.arrivedCount(key(c.cur)) > 0 || r.finished(st.K) }) && !r.finished(st.K) {
					// the request reached the handler: the call is registered on the connection it was handed
					r.add(&Ev{Ev: "api.reg", C: st.K, S: r.lastConnOf(st.K), Seq: -1, Sent: -1})
				}
			}
		}
	case "Return":
		c := r.callers[st.K]
		if c == nil || !c.running {
			return
		}
		s := r.servers[c.addr]
		if s.svc.gate != nil && s.svc.gate.arrivedCount(key(c.cur)) > 0 {
			s.svc.gate.release(key(c.cur), 0)
		}
		r.await("Return", func() bool { return r.finished(st.K) })
	case "Burst":
		// st.K concurrent ungated callers racing for the pool
		var wg sync.WaitGroup
		for i := 0; i < st.K; i++ {
			wg.Add(1)
			id := 900000 + int(atomic.AddInt64(&burstID, 1))
			if s := r.servers[st.Addr]; s != nil && s.svc.gate != nil {
				s.svc.gate.release(key(id), 0)
			}
			go func(id int) {
				defer wg.Done()
				var rep TReply
				err := r.t.Call(st.Addr, "T.Do", &TArgs{ID: id}, &rep)
				kind, right := 0, 1
				switch err {
				case nil:
					if rep.Addr != st.Addr || rep.ID != id {
						right = 0
					}
				case rpc.ErrShutdown:
					kind = 1
				case rpc.ErrDial:
					kind = 2
				default:
					kind = 3
				}
				r.add(&Ev{Ev: "api.ret", C: 99, A: kind, B: right, Seq: -1, Sent: -1, S: id})
			}(id)
		}
		wg.Wait()
	case "Tick":
		if r.tickGate != nil {
			n0 := r.CountEv("t.tick.end")
			if r.CountEv("t.get")+r.CountEv("t.dial") == 0 {
				return // the Transport has not started its housekeeping goroutine yet
			}
			if r.await("tick gate", func() bool { return r.tickGate.arrivedCount("tick") > n0 }) {
				r.tickGate.release("tick", 0)
				r.await("Tick", func() bool { return r.CountEv("t.tick.end") > n0 })
			}
		}
	case "CloseIdle":
		r.add(&Ev{Ev: "api.closeidle", Seq: -1, Sent: -1})
		r.t.CloseIdleConnections()
		r.add(&Ev{Ev: "api.closeidle.end", Seq: -1, Sent: -1})
	case "Close":
		r.t.Close()
	case "Advance":
		time.Sleep(unit)
	case "Kill":
		r.mu2.Lock()
		s := r.servers[st.Addr]
		s.up = false
		ws := s.wires
		s.wires = nil
		r.mu2.Unlock()
		r.add(&Ev{Ev: "env.kill", A: r.addrIdxByName(st.Addr), Seq: -1, Sent: -1})
		// the server process dies: every connection to it ends; calls in flight fail at once
		for _, w := range ws {
			w.Cut(0, 0)
		}
		for k, c := range r.callers {
			if c.running && c.addr == st.Addr && r.countReg(k, c.cur) {
				k := k
				r.await("failure of the call in flight", func() bool { return r.finished(k) })
			}
		}
		time.Sleep(time.Millisecond) // idle pooled connections: let their readers see the end of the stream
	case "Drop":
		// one connection ends while its server stays up (st.K = connection number in dial order)
		r.mu2.Lock()
		var w *Wire
		for c, id := range r.connID {
			if id == st.K {
				w = r.connWire[c]
			}
		}
		r.mu2.Unlock()
		if w == nil {
			return
		}
		r.add(&Ev{Ev: "env.drop", S: st.K, Seq: -1, Sent: -1})
		if r.cfg.IOErr {
			w.CutErr(errReset)
		} else {
			w.Cut(0, 0)
		}
		for k, c := range r.callers {
			if c.running && r.lastConnOf(k) == st.K && r.countReg(k, c.cur) {
				k := k
				r.await("failure of the call in flight on the dropped connection", func() bool { return r.finished(k) })
			}
		}
		time.Sleep(time.Millisecond)
	case "Restart":
		r.mu2.Lock()
		r.servers[st.Addr].up = true
		r.mu2.Unlock()
		r.add(&Ev{Ev: "env.restart", A: r.addrIdxByName(st.Addr), Seq: -1, Sent: -1})
	}
}

func (r *TransRun) finalize() {
	r.mu2.Lock()
	for _, w := range r.brokenW {
		w.Cut(0, 0)
	}
	r.mu2.Unlock()
	if r.gotGate != nil {
		r.gotGate.openAll(0)
		for _, s := range r.servers {
			s.svc.gate.openAll(0)
		}
	}
	for k := range r.callers {
		k := k
		r.await("caller return", func() bool { return r.finished(k) })
	}
	if r.tickGate != nil {
		r.tickGate.openAll(0)
	}
	r.add(&Ev{Ev: "obs.closing", Seq: -1, Sent: -1})
	r.t.Close()
	time.Sleep(3 * time.Millisecond)
	close(r.stopWatch)
	// sockets: every connection dialed must be closed after Close (pooled ones) - callers are done
	live := 0
	r.mu2.Lock()
	for c, w := range r.connWire {
		_ = c
		w.mu.Lock()
		if !w.cli.closed {
			live++
		}
		w.mu.Unlock()
	}
	r.mu2.Unlock()
	// executions per call id: the library never retries or duplicates an execution (C04)
	for _, s := range r.servers {
		s.svc.mu.Lock()
		for id, n := range s.svc.exec {
			if n > 1 {
				r.add(&Ev{Ev: "obs.dupexec", S: id, A: n, Seq: -1, Sent: -1})
			}
		}
		s.svc.mu.Unlock()
	}
	r.add(&Ev{Ev: "obs.end", A: live, B: int(atomic.LoadInt64(&r.opened)), Seq: -1, Sent: -1})
	unroute(r.t)
	setGate(r.t, nil)
	r.mu2.Lock()
	for c := range r.connID {
		unroute(c)
	}
	r.mu2.Unlock()
	dropCallRoutes(r.Run)
}

func (r *TransRun) trace() []*Ev {
	evs := r.snapshot()
	var out []*Ev
	for i, e := range evs {
		switch e.Ev {
		case "t.get", "t.idle.deq", "t.dial", "t.dead", "t.tick", "t.tick.end", "t.idle.close", "t.closeidle.active", "t.closeidle.idle", "t.idle.spare", "api.reg",
			"t.close", "t.close.conn", "t.closed", "api.call", "api.ret", "api.closeidle", "api.closeidle.end", "env.kill", "env.restart", "env.drop", "env.late", "obs.dupsignal", "obs.closing", "obs.end", "obs.dupexec":
			out = append(out, e)
		case "t.retire":
			// look ahead: was it enqueued or closed for lack of room?
			e.A = 0
			for _, f := range evs[i+1:] {
				if f.Ev == "t.retire" || f.Ev == "t.tick.end" || f.Ev == "t.idle.close" {
					break
				}
				if f.Ev == "t.overflow.close" && f.S == e.S {
					e.A = 1
					e.B = f.B
					break
				}
			}
			out = append(out, e)
		case "c.close":
			if e.S != 0 {
				out = append(out, e)
			}
		}
	}
	return out
}

type TRunResult struct {
	Name   string   `json:"name"`
	Notes  []string `json:"notes"`
	Events int      `json:"events"`
}

func runTSchedule(s TSchedule, w *bufWriter) TRunResult {
	r := newTransRun(s.Name, s.Cfg, true)
	for _, st := range s.Steps {
		r.exec(st)
	}
	r.finalize()
	evs := r.trace()
	cfgJSON, _ := json.Marshal(s.Cfg)
	hdr := &Ev{Ev: "reset", K: string(cfgJSON), Seq: -1, Sent: -1, A: s.Cfg.MaxConns, B: s.Cfg.MaxIdle}
	writeTrace(w, append([]*Ev{hdr}, evs...))
	return TRunResult{Name: s.Name, Notes: r.notes, Events: len(evs)}
}

func init() {
	commands["treplay"] = func(args []string) {
		fs := flag.NewFlagSet("treplay", flag.ExitOnError)
		in := fs.String("in", "", "schedules JSON")
		out := fs.String("out", "", "trace ndjson")
		res := fs.String("res", "", "results json")
		par := fs.Int("par", 8, "parallel runs")
		fs.Parse(args)
		data, err := os.ReadFile(*in)
		if err != nil {
			fmt.Fprintln(os.Stderr, err)
			os.Exit(2)
		}
		var scheds []TSchedule
		if err := json.Unmarshal(data, &scheds); err != nil {
			fmt.Fprintln(os.Stderr, "bad schedules:", err)
			os.Exit(2)
		}
		results := make([]TRunResult, len(scheds))
		traces := make([][]byte, len(scheds))
		sem := make(chan struct{}, *par)
		var wg sync.WaitGroup
		for i := range scheds {
			wg.Add(1)
			sem <- struct{}{}
			go func(i int) {
				defer wg.Done()
				defer func() { <-sem }()
				var buf bufWriter
				results[i] = runTSchedule(scheds[i], &buf)
				traces[i] = buf.b
			}(i)
		}
		wg.Wait()
		f, _ := os.Create(*out)
		for _, t := range traces {
			f.Write(t)
		}
		f.Close()
		rj, _ := json.MarshalIndent(results, "", " ")
		os.WriteFile(*res, rj, 0644)
	}
}
