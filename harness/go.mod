module verifharness

go 1.15

require (
	github.com/hslam/netpoll v0.0.4-0.20230514092318-c286d2b379aa
	github.com/hslam/rpc v0.0.0
	github.com/hslam/socket v0.0.4-0.20230517140040-6048f4a0c39b
)

replace github.com/hslam/rpc => /repo
