module verifharness

go 1.15

require github.com/hslam/rpc v0.0.0

replace github.com/hslam/rpc => /repo
