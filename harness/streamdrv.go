package main

// Gated driver for streams on one connection: executes TLC behaviours of RpcStream.tla
// on the real Conn / ServeCodec over the in-memory wire.  The server-side handler is a
// puppet that executes one command at a time (push / read / return); the client side
// opens, writes, reads and closes streams as the schedule says; frames are delivered
// one by one.  Recorded: wire frames (kind, stream, message number), the reader's and
// the server's dispatch hooks, teardown hooks, and the API-level events (what every
// ReadMessage returned, when NewStream / Close returned, handler start / return).

import (
	"encoding/json"
	"flag"
	"fmt"
	"io"
	"os"
	"sync"
	"time"

	rpc "github.com/hslam/rpc"
)

type StreamCfg struct {
	Streams   []int `json:"Streams"`
	CliDirect bool  `json:"CliDirect"`
	SrvDirect bool  `json:"SrvDirect"`
	SrvPipe   bool  `json:"SrvPipe"`
}

type SSchedule struct {
	Name  string    `json:"name"`
	Cfg   StreamCfg `json:"cfg"`
	Steps []Step    `json:"steps"`
}

// HStream is the argument type of the stream handler (funcs recognises it by its methods).
type HStream struct {
	s rpc.Stream
}

func (h *HStream) Connect(s rpc.Stream) error        { h.s = s; return nil }
func (h *HStream) Read(b []byte, m *StreamMsg) error { return h.s.ReadMessage(b, m) }
func (h *HStream) Write(m *StreamMsg) error          { return h.s.WriteMessage(m) }

type hcmd struct {
	op string // push / read / return
	n  int
}

type srvStream struct {
	id   int
	cmds chan hcmd
}

// StreamSvc hosts the puppet handler.
type StreamSvc struct {
	r  *StreamRun
	mu sync.Mutex
}

// Chat is the stream handler.
func (sv *StreamSvc) Chat(st *HStream) error {
	r := sv.r
	id := r.serverStreamID(st.s)
	ss := r.srvStreamOf(id)
	r.add(&Ev{Ev: "h.start", S: id, Seq: -1, Sent: -1})
	for c := range ss.cmds {
		switch c.op {
		case "push":
			r.add(&Ev{Ev: "h.push", S: id, A: c.n, Seq: -1, Sent: -1})
			err := st.Write(&StreamMsg{Stream: id, N: c.n, Pad: mkPad(id*100+c.n, 24)})
			if err != nil {
				r.add(&Ev{Ev: "h.push.err", S: id, A: c.n, Seq: -1, Sent: -1})
			}
		case "read":
			go func() {
				var m StreamMsg
				err := st.Read(nil, &m)
				if err != nil {
					k := "other"
					if err == rpc.ErrStreamShutdown {
						k = "shutdown"
					}
					r.add(&Ev{Ev: "h.read.ret", S: id, K: k, Seq: -1, Sent: -1})
				} else {
					ok := 1
					if string(m.Pad) != string(mkPad(m.Stream*100+m.N+50, 24)) {
						ok = 0
					}
					r.add(&Ev{Ev: "h.read.ret", S: id, K: "msg", A: m.N, B: m.Stream, Sent: ok, Seq: -1})
				}
			}()
		case "drain":
			go func() {
				for {
					var m StreamMsg
					err := st.Read(nil, &m)
					if err != nil {
						k := "other"
						if err == rpc.ErrStreamShutdown {
							k = "shutdown"
						}
						r.add(&Ev{Ev: "h.read.ret", S: id, K: k, Seq: -1, Sent: -1})
						return
					}
					ok := 1
					if string(m.Pad) != string(mkPad(m.Stream*100+m.N+50, 24)) {
						ok = 0
					}
					r.add(&Ev{Ev: "h.read.ret", S: id, K: "msg", A: m.N, B: m.Stream, Sent: ok, Seq: -1})
				}
			}()
		case "return":
			r.add(&Ev{Ev: "h.return", S: id, Seq: -1, Sent: -1})
			return nil
		}
	}
	return nil
}

type cliStream struct {
	id      int
	st      rpc.Stream
	err     error
	opened  chan struct{}
	closed  chan struct{}
	reading bool
}

type StreamRun struct {
	*ConnRun
	scfg     StreamCfg
	smu      sync.Mutex
	cli      map[int]*cliStream
	srv      map[int]*srvStream
	ptrSeq   map[interface{}]int // server-side *stream -> sequence number (from v.stream.open)
	seqID    map[int]int         // sequence number -> stream id (from the client's open registration)
	openWait []int               // streams whose open call has been started, not yet registered
	closeSeq map[int]bool        // sequence numbers for which the server has been given a close frame
	pushN    map[int]int
	ptrCli   map[interface{}]int
	curOpen  int
	sendN    map[int]int
}

func newStreamRun(name string, cfg StreamCfg) *StreamRun {
	cr := newConnRun(name, ConnCfg{CliDirect: cfg.CliDirect, SrvDirect: cfg.SrvDirect, SrvPipe: cfg.SrvPipe}, true)
	r := &StreamRun{ConnRun: cr, scfg: cfg, cli: map[int]*cliStream{}, srv: map[int]*srvStream{}, ptrSeq: map[interface{}]int{},
		seqID: map[int]int{}, closeSeq: map[int]bool{}, pushN: map[int]int{}, sendN: map[int]int{}, ptrCli: map[interface{}]int{}}
	cr.Run.onHook = r.bindS
	cr.server.RegisterName("Chat", &StreamSvc{r: r})
	// stream runs have no gated unary traffic: open every gate of the unary machinery
	cr.marshal.openAll(decOK)
	cr.finish.openAll(0)
	cr.svc.exec.openAll(0)
	cr.closeG.openAll(0)
	return r
}

func (r *StreamRun) srvStreamOf(id int) *srvStream {
	r.smu.Lock()
	defer r.smu.Unlock()
	s := r.srv[id]
	if s == nil {
		s = &srvStream{id: id, cmds: make(chan hcmd, 64)}
		r.srv[id] = s
	}
	return s
}

func (r *StreamRun) serverStreamID(s rpc.Stream) int {
	deadline := time.Now().Add(time.Second)
	for {
		r.smu.Lock()
		seq, ok := r.ptrSeq[interface{}(s)]
		id := 0
		if ok {
			id = r.seqID[seq]
		}
		r.smu.Unlock()
		if ok && id != 0 {
			return id
		}
		if time.Now().After(deadline) {
			return 0
		}
		time.Sleep(50 * time.Microsecond)
	}
}

// bindS: identities at hook time.
func (r *StreamRun) bindS(run *Run, e *Ev) {
	r.ConnRun.bind(run, e)
	switch e.Ev {
	case "c.register":
		if e.K == "open" {
			r.smu.Lock()
			if len(r.openWait) > 0 {
				id := r.openWait[0]
				r.openWait = r.openWait[1:]
				r.seqID[e.Seq] = id
				e.S = id
			}
			r.smu.Unlock()
		}
	case "v.stream.open", "v.stream.close", "v.stream.sweep", "v.stream.msg":
		e.Seq = int(e.rawA)
		r.smu.Lock()
		if e.Ev == "v.stream.open" {
			r.ptrSeq[e.sub] = e.Seq
			route(e.sub, run)
		}
		e.S = r.seqID[e.Seq]
		r.smu.Unlock()
	case "c.stream.new":
		// the client-side stream object of the stream being opened right now
		r.smu.Lock()
		if r.curOpen != 0 {
			r.ptrCli[e.sub] = r.curOpen
			e.S = r.curOpen
		}
		r.smu.Unlock()
		route(e.sub, run)
	case "s.read", "s.read.shutdown", "s.stop", "s.trigger":
		r.smu.Lock()
		if id, ok := r.ptrCli[e.raw]; ok {
			e.S, e.K = id, "cli"
		} else if seq, ok := r.ptrSeq[e.raw]; ok {
			e.S, e.K = r.seqID[seq], "srv"
		}
		r.smu.Unlock()
	case "c.dispatch", "c.ackdone", "v.dispatch", "c.dropshutdown":
		r.smu.Lock()
		e.S = r.seqID[e.Seq]
		r.smu.Unlock()
		if e.Ev == "c.dispatch" && isNilCall(e.sub) {
			e.K = "none" // no entry under this sequence number: the frame is dropped
		}
	}
}

func (r *StreamRun) frameEvents(kind string, s int) int {
	return r.evc(func(e *Ev) bool { return e.Ev == "w.frame" && e.K == kind && e.S == s })
}

func (r *StreamRun) evc(pred func(e *Ev) bool) int {
	r.Run.mu.Lock()
	defer r.Run.mu.Unlock()
	n := 0
	for _, e := range r.Run.evs {
		if pred(e) {
			n++
		}
	}
	return n
}

func (r *StreamRun) execS(st Step) {
	s := st.C
	switch st.A {
	case "Open":
		cs := &cliStream{id: s, opened: make(chan struct{}), closed: make(chan struct{})}
		r.smu.Lock()
		r.cli[s] = cs
		r.openWait = append(r.openWait, s)
		r.curOpen = s
		r.smu.Unlock()
		r.add(&Ev{Ev: "api.open", S: s, Seq: -1, Sent: -1})
		n0 := r.evc(func(e *Ev) bool { return e.Ev == "w.write" && e.K == "c2s" })
		go func() {
			st, err := r.conn.NewStream("Chat.Chat")
			cs.st, cs.err = st, err
			a := 0
			if err != nil {
				a = 1
			}
			r.add(&Ev{Ev: "api.established", S: s, A: a, Seq: -1, Sent: -1})
			close(cs.opened)
		}()
		r.await("Open", func() bool { return r.evc(func(e *Ev) bool { return e.Ev == "w.write" && e.K == "c2s" }) > n0 })
	case "SrvFrame":
		n0 := r.CountEv("v.dispatch") + r.CountEv("v.drop")
		if r.wire.Deliver(false) {
			r.await("SrvFrame", func() bool { return r.CountEv("v.dispatch")+r.CountEv("v.drop") > n0 })
			time.Sleep(100 * time.Microsecond)
		}
	case "SrvAck", "HandlerStart":
		// the server acknowledges the open and then starts the handler, both without further stimulus: once the handler has
		// started the ack frame is on the wire (a fixed sleep was not enough under load: the next ReaderFrame step then found
		// nothing in flight and the rest of the schedule ran on a stream that was not established)
		r.await(st.A, func() bool { return r.evc(func(e *Ev) bool { return e.Ev == "h.start" && e.S == s }) > 0 })
		if st.A == "SrvAck" {
			time.Sleep(200 * time.Microsecond)
		}
	case "Push":
		ss := r.srvStreamOf(s)
		n0 := r.CountEv("w.write")
		e0 := r.evc(func(e *Ev) bool { return e.Ev == "h.push.err" && e.S == s })
		if r.evc(func(e *Ev) bool { return e.Ev == "h.start" && e.S == s }) > 0 {
			r.pushN[s]++
			ss.cmds <- hcmd{op: "push", n: r.pushN[s]}
			r.await("Push", func() bool {
				return r.CountEv("w.write") > n0 || r.evc(func(e *Ev) bool { return e.Ev == "h.push.err" && e.S == s }) > e0
			})
		}
	case "ReaderFrame":
		n0 := r.CountEv("c.dispatch") + r.CountEv("c.dropshutdown") + r.CountEv("c.badframe")
		if r.wire.Deliver(true) {
			r.await("ReaderFrame", func() bool {
				return r.CountEv("c.dispatch")+r.CountEv("c.dropshutdown")+r.CountEv("c.badframe") > n0
			})
			time.Sleep(150 * time.Microsecond) // the stream event reaches the stream's queue
		}
	case "Established":
		if cs := r.cli[s]; cs != nil {
			r.await("Established", func() bool {
				select {
				case <-cs.opened:
					return true
				default:
					return false
				}
			})
		}
	case "CliWrite":
		cs := r.cli[s]
		if cs == nil || cs.st == nil {
			return
		}
		r.sendN[s]++
		n := r.sendN[s]
		r.add(&Ev{Ev: "cli.write", S: s, A: n, Seq: -1, Sent: -1})
		n0 := r.CountEv("w.write")
		err := cs.st.WriteMessage(&StreamMsg{Stream: s, N: n, Pad: mkPad(s*100+n+50, 24)})
		if err != nil {
			r.add(&Ev{Ev: "cli.write.err", S: s, A: n, Seq: -1, Sent: -1})
		} else {
			r.await("CliWrite", func() bool { return r.CountEv("w.write") > n0 })
		}
	case "CliWriteFail":
		cs := r.cli[s]
		if cs == nil || cs.st == nil {
			return
		}
		// a message the body codec cannot encode: the write fails locally
		r.add(&Ev{Ev: "cli.write.bad", S: s, Seq: -1, Sent: -1})
		cs.st.WriteMessage(&struct{ X int }{1})
		time.Sleep(200 * time.Microsecond)
	case "CliRead":
		cs := r.cli[s]
		if cs == nil || cs.st == nil || cs.reading {
			return
		}
		cs.reading = true
		done := make(chan struct{})
		go func() {
			var m StreamMsg
			err := cs.st.ReadMessage(nil, &m)
			if err != nil {
				k := "other"
				if err == rpc.ErrStreamShutdown {
					k = "shutdown"
				}
				r.add(&Ev{Ev: "cli.read.ret", S: s, K: k, Seq: -1, Sent: -1})
			} else {
				ok := 1
				if m.N > 0 && string(m.Pad) != string(mkPad(m.Stream*100+m.N, 24)) {
					ok = 0
				}
				r.add(&Ev{Ev: "cli.read.ret", S: s, K: "msg", A: m.N, B: m.Stream, Sent: ok, Seq: -1})
			}
			cs.reading = false
			close(done)
		}()
		select {
		case <-done:
		case <-time.After(3 * time.Millisecond):
		}
	case "CliClose":
		cs := r.cli[s]
		if cs == nil || cs.st == nil {
			return
		}
		r.add(&Ev{Ev: "api.close", S: s, Seq: -1, Sent: -1})
		n0 := r.CountEv("w.write")
		go func() {
			err := cs.st.Close()
			a := 0
			if err != nil {
				a = 1
			}
			r.add(&Ev{Ev: "api.close.ret", S: s, A: a, Seq: -1, Sent: -1})
			close(cs.closed)
		}()
		r.await("CliClose", func() bool { return r.CountEv("w.write") > n0 })
	case "CloseSend":
	case "SrvRead":
		if r.evc(func(e *Ev) bool { return e.Ev == "h.start" && e.S == s }) > 0 {
			r.srvStreamOf(s).cmds <- hcmd{op: "read"}
			time.Sleep(2 * time.Millisecond)
		}
	case "HandlerReturn":
		if r.evc(func(e *Ev) bool { return e.Ev == "h.start" && e.S == s }) > 0 {
			r.srvStreamOf(s).cmds <- hcmd{op: "return"}
			r.await("HandlerReturn", func() bool { return r.evc(func(e *Ev) bool { return e.Ev == "h.return" && e.S == s }) > 0 })
		}
	case "Cut":
		r.wire.Cut(0, 0)
	case "CliSweep":
		r.wire.DeliverEOF(true, io.EOF)
		r.await("CliSweep", func() bool { return r.CountEv("c.swept") > 0 })
	case "SrvEOF":
		r.wire.DeliverEOF(false, io.EOF)
		r.await("SrvEOF", func() bool { return r.CountEv("v.eof") > 0 })
	case "SrvTeardown":
		r.await("SrvTeardown", func() bool { return r.CountEv("v.done") > 0 })
	}
}

// drainCli reads the client end of a stream until it reports an error.
func (r *StreamRun) drainCli(s int, cs *cliStream) {
	cs.reading = true
	go func() {
		for {
			var m StreamMsg
			err := cs.st.ReadMessage(nil, &m)
			if err != nil {
				k := "other"
				if err == rpc.ErrStreamShutdown {
					k = "shutdown"
				}
				r.add(&Ev{Ev: "cli.read.ret", S: s, K: k, Seq: -1, Sent: -1})
				cs.reading = false
				return
			}
			ok := 1
			if m.N > 0 && string(m.Pad) != string(mkPad(m.Stream*100+m.N, 24)) {
				ok = 0
			}
			r.add(&Ev{Ev: "cli.read.ret", S: s, K: "msg", A: m.N, B: m.Stream, Sent: ok, Seq: -1})
		}
	}()
}

// finalizeS: everything is let loose, then the connection is ended; afterwards every
// blocked read must have returned and every handler must be able to return.
func (r *StreamRun) finalizeS() {
	r.wire.Flush()
	time.Sleep(2 * time.Millisecond)
	r.add(&Ev{Ev: "obs.closing", Seq: -1, Sent: -1})
	// every open client stream gets a reader, every running handler a reader too: they must all be woken by the end of the connection
	r.smu.Lock()
	for s, cs := range r.cli {
		_ = s
		_ = cs
	}
	r.smu.Unlock()
	for _, s := range r.scfg.Streams {
		if cs := r.cli[s]; cs != nil {
			select {
			case <-cs.opened:
			case <-time.After(300 * time.Millisecond):
			}
			if cs.st != nil && !cs.reading {
				r.drainCli(s, cs)
			}
		}
		if r.evc(func(e *Ev) bool { return e.Ev == "h.start" && e.S == s }) > 0 && r.evc(func(e *Ev) bool { return e.Ev == "h.return" && e.S == s }) == 0 {
			r.srvStreamOf(s).cmds <- hcmd{op: "drain"}
		}
	}
	time.Sleep(3 * time.Millisecond)
	r.conn.Close()
	r.wire.Cut(0, 0)
	deadline := time.Now().Add(2 * time.Second)
	blockedCli, blockedSrv := 0, 0
	for {
		blockedCli, blockedSrv = 0, 0
		for _, s := range r.scfg.Streams {
			if cs := r.cli[s]; cs != nil && cs.reading {
				blockedCli++
			}
			starts := r.evc(func(e *Ev) bool { return e.Ev == "h.start" && e.S == s })
			if starts > 0 && r.evc(func(e *Ev) bool { return e.Ev == "h.return" && e.S == s }) == 0 {
				// has its (last) read returned?
				reads := r.evc(func(e *Ev) bool { return e.Ev == "h.read.ret" && e.S == s && e.K != "msg" })
				if reads == 0 {
					blockedSrv++
				}
			}
		}
		if (blockedCli == 0 && blockedSrv == 0 && r.CountEv("v.done") > 0) || time.Now().After(deadline) {
			break
		}
		time.Sleep(500 * time.Microsecond)
	}
	for _, s := range r.scfg.Streams {
		if r.evc(func(e *Ev) bool { return e.Ev == "h.start" && e.S == s }) > 0 && r.evc(func(e *Ev) bool { return e.Ev == "h.return" && e.S == s }) == 0 {
			r.srvStreamOf(s).cmds <- hcmd{op: "return"}
		}
	}
	time.Sleep(2 * time.Millisecond)
	// NewStream / Close calls that have not returned although the connection is gone
	blockedCalls := 0
	opens := r.evc(func(e *Ev) bool { return e.Ev == "api.open" })
	est := r.evc(func(e *Ev) bool { return e.Ev == "api.established" })
	closes := r.evc(func(e *Ev) bool { return e.Ev == "api.close" })
	closeRets := r.evc(func(e *Ev) bool { return e.Ev == "api.close.ret" })
	blockedCalls = (opens - est) + (closes - closeRets)
	r.add(&Ev{Ev: "obs.end", A: blockedCli, B: blockedSrv, S: blockedCalls, Seq: -1, Sent: -1})
	unroute(r.conn)
	dropCallRoutes(r.Run)
}

// traceS: the event stream of a stream run.
func (r *StreamRun) traceS() []*Ev {
	evs := foldSweep(foldSignals(r.snapshot()))
	var out []*Ev
	for _, e := range evs {
		switch e.Ev {
		case "w.write":
			// classify the frame: open / msg / close (requests by flags), ack / msg / closeack (responses)
			f := &Ev{N: e.N, Ev: "w.frame", Seq: e.Seq, A: e.A, Sent: -1}
			r.smu.Lock()
			f.S = r.seqID[e.Seq]
			if e.K == "c2s" {
				f.K = map[int]string{0xC8: "open", 0x50: "msg", 0xD8: "close"}[e.B&0xF8]
				if f.K == "close" {
					r.closeSeq[e.Seq] = true
				}
			} else {
				switch {
				case e.M != 0:
					f.K = "msg"
				case r.closeSeq[e.Seq]:
					f.K = "closeack"
				default:
					f.K = "ack"
				}
			}
			r.smu.Unlock()
			f.B = e.M // message number (from the body)
			if e.K == "c2s" {
				f.C = 1
			} else {
				f.C = 2
			}
			if f.K != "" {
				out = append(out, f)
			}
		case "api.open", "api.established", "api.close", "api.close.ret", "cli.write", "cli.read.ret", "h.start", "h.push", "h.read.ret", "h.return",
			"c.dispatch", "c.dropshutdown", "v.dispatch", "v.drop", "c.eofsweep", "v.eof", "v.done", "s.read", "s.read.shutdown", "s.stop", "env.cut", "obs.closing", "obs.end", "c.close", "w.close":
			if e.Ev == "w.close" && e.K != "cli" {
				continue
			}
			out = append(out, e)
		}
	}
	return out
}

func runSSchedule(s SSchedule, w *bufWriter) RunResult {
	r := newStreamRun(s.Name, s.Cfg)
	for _, st := range s.Steps {
		r.execS(st)
	}
	r.finalizeS()
	evs := foldSweep(foldSignals(r.snapshot()))
	_ = evs
	tr := r.traceS()
	cfgJSON, _ := json.Marshal(s.Cfg)
	hdr := &Ev{Ev: "reset", K: string(cfgJSON), Seq: -1, Sent: -1}
	writeTrace(w, append([]*Ev{hdr}, tr...))
	return RunResult{Name: s.Name, Notes: r.notes, Events: len(tr)}
}

func init() {
	commands["sreplay"] = func(args []string) {
		fs := flag.NewFlagSet("sreplay", flag.ExitOnError)
		in := fs.String("in", "", "schedules JSON")
		out := fs.String("out", "", "trace ndjson")
		res := fs.String("res", "", "results json")
		par := fs.Int("par", 8, "parallel runs")
		fs.Parse(args)
		data, err := os.ReadFile(*in)
		if err != nil {
			fmt.Fprintln(os.Stderr, err)
			os.Exit(2)
		}
		var scheds []SSchedule
		if err := json.Unmarshal(data, &scheds); err != nil {
			fmt.Fprintln(os.Stderr, "bad schedules:", err)
			os.Exit(2)
		}
		results := make([]RunResult, len(scheds))
		traces := make([][]byte, len(scheds))
		sem := make(chan struct{}, *par)
		var wg sync.WaitGroup
		for i := range scheds {
			wg.Add(1)
			sem <- struct{}{}
			go func(i int) {
				defer wg.Done()
				defer func() { <-sem }()
				var buf bufWriter
				results[i] = runSSchedule(scheds[i], &buf)
				traces[i] = buf.b
			}(i)
		}
		wg.Wait()
		f, _ := os.Create(*out)
		for _, t := range traces {
			f.Write(t)
		}
		f.Close()
		rj, _ := json.MarshalIndent(results, "", " ")
		os.WriteFile(*res, rj, 0644)
	}
}
