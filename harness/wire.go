package main

// Frame-level in-memory wire: a pair of socket.Messages endpoints whose frame
// delivery, write outcome and end-of-stream are controlled by the driver
// (gated mode) or flow freely (auto mode).

import (
	"errors"
	"io"
	"sync"
)

var errReset = errors.New("read: connection timed out") // a non-EOF read error

type qframe struct {
	data []byte
}

// dirq is one direction of the wire.
type dirq struct {
	inflight [][]byte // written, not yet handed to the reader (gated mode)
	ready    [][]byte // deliverable to ReadMessage
	eof      bool     // after ready is drained ReadMessage returns eofErr
	eofErr   error
	taken    int // frames ReadMessage has returned
}

type Wire struct {
	mu    sync.Mutex
	cond  *sync.Cond
	gated bool
	cut   bool
	hole  bool // the peer vanished silently: writes are swallowed, nothing arrives, no end of stream yet
	// closeErr: closing the client end after the connection was cut reports an error (see errPeerGone)
	closeErr bool
	c2s      dirq
	s2c      dirq
	cli      *End
	srv      *End
	run      *Run
	// write gate: called (without w.mu) before a client frame is written;
	// returns false to make the write fail.
	cliWriteGate func(info FrameInfo) error
	// close gate: called when the client end is closed (Conn.Close -> codec.Close)
	cliCloseGate func()
	wrote        []FrameInfo // responses written by the server, in order
}

type End struct {
	w      *Wire
	client bool
	closed bool
}

func NewWire(run *Run, gated bool) *Wire {
	w := &Wire{gated: gated, run: run}
	w.cond = sync.NewCond(&w.mu)
	w.cli = &End{w: w, client: true}
	w.srv = &End{w: w, client: false}
	return w
}

func (e *End) in() *dirq {
	if e.client {
		return &e.w.s2c
	}
	return &e.w.c2s
}

func (e *End) out() *dirq {
	if e.client {
		return &e.w.c2s
	}
	return &e.w.s2c
}

func (e *End) dirName() string {
	if e.client {
		return "c2s"
	}
	return "s2c"
}

// ReadMessage implements socket.Messages.
func (e *End) ReadMessage(buf []byte) ([]byte, error) {
	w := e.w
	w.mu.Lock()
	defer w.mu.Unlock()
	q := e.in()
	for {
		if e.closed {
			return nil, io.EOF
		}
		if len(q.ready) > 0 {
			f := q.ready[0]
			q.ready = q.ready[1:]
			q.taken++
			w.cond.Broadcast()
			var p []byte
			if cap(buf) >= len(f) {
				p = buf[:len(f)]
			} else {
				p = make([]byte, len(f))
			}
			copy(p, f)
			return p, nil
		}
		if q.eof {
			return nil, q.eofErr
		}
		w.cond.Wait()
	}
}

// WriteMessage implements socket.Messages.
func (e *End) WriteMessage(b []byte) error {
	w := e.w
	info := parseFrame(b, e.client)
	if e.client && w.cliWriteGate != nil {
		if err := w.cliWriteGate(info); err != nil {
			return err
		}
	}
	w.mu.Lock()
	if e.closed {
		w.mu.Unlock()
		return io.EOF
	}
	ok := 1
	if w.cut || w.hole {
		ok = 0 // lost
	} else {
		f := make([]byte, len(b))
		copy(f, b)
		q := e.out()
		if w.gated {
			q.inflight = append(q.inflight, f)
		} else {
			q.ready = append(q.ready, f)
		}
		if !e.client {
			info.Raw = f
			w.wrote = append(w.wrote, info)
		}
	}
	if w.run != nil {
		w.run.add(&Ev{Ev: "w.write", K: e.dirName(), Seq: info.Seq, C: info.ID, A: ok, B: info.Class, Sent: -1, S: info.MsgS, M: info.MsgN})
	}
	w.cond.Broadcast()
	w.mu.Unlock()
	if ok == 0 && !e.client && !w.hole {
		return io.EOF // the server sees a closed socket
	}
	return nil
}

// errPeerGone is what closing a connection reports when its peer has gone away first and the transport wants to say goodbye
// (a TLS connection that cannot send its close_notify reports the write error from Close).
var errPeerGone = errors.New("harness: close: the peer is gone (broken pipe)")

// Close implements socket.Messages.
func (e *End) Close() error {
	w := e.w
	if e.client && w.cliCloseGate != nil {
		w.cliCloseGate()
	}
	w.mu.Lock()
	var cerr error
	if !e.closed && e.client && w.closeErr && w.cut {
		cerr = errPeerGone
	}
	if !e.closed {
		e.closed = true
		// the peer sees the end of the stream once it has consumed what is queued
		w.cut = true
		p := e.out()
		if w.gated {
			// the driver decides when the peer observes it
		} else {
			p.eof, p.eofErr = true, io.EOF
		}
		if w.run != nil {
			side := "srv"
			if e.client {
				side = "cli"
			}
			w.run.add(&Ev{Ev: "w.close", K: side, Seq: -1, Sent: -1})
		}
	}
	w.cond.Broadcast()
	w.mu.Unlock()
	return cerr
}

// ---- driver operations -----------------------------------------------------

// Blackhole: the peer vanishes without a trace (no FIN): nothing is delivered any more, writes are
// swallowed; the end of the stream is only seen once Cut is called.
func (w *Wire) Blackhole() {
	w.mu.Lock()
	w.hole = true
	w.mu.Unlock()
}

// Cut: the network/peer cuts the connection. Later writes are lost, and so are
// up to lossC2S / lossS2C of the newest frames still in flight (gated mode).
func (w *Wire) Cut(lossC2S, lossS2C int) {
	w.mu.Lock()
	if !w.cut {
		w.cut = true
		drop := func(q *dirq, n int) int {
			if n > len(q.inflight) {
				n = len(q.inflight)
			}
			q.inflight = q.inflight[:len(q.inflight)-n]
			return n
		}
		la, lb := drop(&w.c2s, lossC2S), drop(&w.s2c, lossS2C)
		if w.run != nil {
			w.run.add(&Ev{Ev: "env.cut", Seq: -1, Sent: -1, A: la, B: lb})
		}
		if !w.gated {
			w.c2s.eof, w.c2s.eofErr = true, io.EOF
			w.s2c.eof, w.s2c.eofErr = true, io.EOF
		}
	}
	w.cond.Broadcast()
	w.mu.Unlock()
}

// CutErr is Cut(0, 0) for an ungated wire with a read error other than EOF at the client (a timed-out or reset connection
// as some transports report it).
func (w *Wire) CutErr(cliErr error) {
	w.Cut(0, 0)
	w.mu.Lock()
	if !w.gated && cliErr != nil {
		w.s2c.eofErr = cliErr
	}
	w.cond.Broadcast()
	w.mu.Unlock()
}

// Deliver hands the oldest in-flight frame of a direction to the reader and
// waits until ReadMessage has taken it. Returns false if nothing was in flight.
func (w *Wire) Deliver(toClient bool) bool {
	w.mu.Lock()
	defer w.mu.Unlock()
	q := &w.c2s
	if toClient {
		q = &w.s2c
	}
	if len(q.inflight) == 0 {
		return false
	}
	f := q.inflight[0]
	q.inflight = q.inflight[1:]
	q.ready = append(q.ready, f)
	w.cond.Broadcast()
	return true
}

// InFlight returns the number of undelivered frames of a direction.
func (w *Wire) InFlight(toClient bool) int {
	w.mu.Lock()
	defer w.mu.Unlock()
	if toClient {
		return len(w.s2c.inflight)
	}
	return len(w.c2s.inflight)
}

// DeliverEOF makes the reader of that direction see the end of the stream
// (after the frames already handed over).
func (w *Wire) DeliverEOF(toClient bool, err error) {
	w.Cut(0, 0) // the end of the stream is only ever seen on a cut connection
	w.mu.Lock()
	q := &w.c2s
	if toClient {
		q = &w.s2c
	}
	q.ready = append(q.ready, q.inflight...) // everything written before the cut arrives first
	q.inflight = nil
	q.eof, q.eofErr = true, err
	w.cond.Broadcast()
	w.mu.Unlock()
}

// Inject appends a frame to the s2c direction as if the peer had written it.
func (w *Wire) Inject(frame []byte, ev *Ev) {
	w.mu.Lock()
	if !w.cut {
		f := make([]byte, len(frame))
		copy(f, frame)
		if w.gated {
			w.s2c.inflight = append(w.s2c.inflight, f)
		} else {
			w.s2c.ready = append(w.s2c.ready, f)
		}
		if w.run != nil && ev != nil {
			w.run.add(ev)
		}
	}
	w.cond.Broadcast()
	w.mu.Unlock()
}

// Flush switches to auto mode: everything in flight becomes deliverable.
func (w *Wire) Flush() {
	w.mu.Lock()
	w.gated = false
	w.c2s.ready = append(w.c2s.ready, w.c2s.inflight...)
	w.c2s.inflight = nil
	w.s2c.ready = append(w.s2c.ready, w.s2c.inflight...)
	w.s2c.inflight = nil
	if w.cut {
		w.c2s.eof, w.c2s.eofErr = true, io.EOF
		w.s2c.eof, w.s2c.eofErr = true, io.EOF
	}
	w.cond.Broadcast()
	w.mu.Unlock()
}

// ---- frame parsing (default header = protobuf wire format) ------------------

// FrameInfo is what the harness reads from a frame it carries (independently
// of the library's decoder).
type FrameInfo struct {
	Seq    int
	Class  int // requests: upgrade byte; responses: 1 if error text present
	ID     int // call id found in the body (0 if none)
	HasErr bool
	Body   []byte
	Method string
	ErrTxt string
	Raw    []byte
	MsgS   int // stream message body: stream id
	MsgN   int // stream message body: message number
}

func uvarint(b []byte) (uint64, int) {
	var x uint64
	var s uint
	for i := 0; i < len(b); i++ {
		c := b[i]
		if c < 0x80 {
			return x | uint64(c)<<s, i + 1
		}
		x |= uint64(c&0x7f) << s
		s += 7
		if s > 63 {
			return 0, -1
		}
	}
	return 0, -1
}

// pbFields parses a protobuf-wire message into field number -> (varint | bytes).
func pbFields(b []byte) (vals map[int]uint64, bytesv map[int][]byte, ok bool) {
	vals = map[int]uint64{}
	bytesv = map[int][]byte{}
	for len(b) > 0 {
		tag, n := uvarint(b)
		if n <= 0 {
			return vals, bytesv, false
		}
		b = b[n:]
		fn := int(tag >> 3)
		switch tag & 7 {
		case 0:
			v, n := uvarint(b)
			if n <= 0 {
				return vals, bytesv, false
			}
			vals[fn] = v
			b = b[n:]
		case 2:
			l, n := uvarint(b)
			if n <= 0 || uint64(len(b)-n) < l {
				return vals, bytesv, false
			}
			bytesv[fn] = b[n : n+int(l)]
			b = b[n+int(l):]
		default:
			return vals, bytesv, false
		}
	}
	return vals, bytesv, true
}

func parseFrame(b []byte, request bool) FrameInfo {
	fi := FrameInfo{Seq: -1}
	vals, bs, _ := pbFields(b)
	fi.Seq = int(vals[1])
	if request {
		if u := bs[2]; len(u) > 0 {
			fi.Class = int(u[0])
		}
		fi.Method = string(bs[3])
		fi.Body = bs[4]
	} else {
		if e := bs[2]; len(e) > 0 {
			fi.HasErr = true
			fi.Class = 1
			fi.ErrTxt = string(e)
		}
		fi.Body = bs[3]
	}
	fi.ID = bodyID(fi.Body)
	if len(fi.Body) >= 17 && fi.Body[0] == 0xC5 {
		var m StreamMsg
		if decStreamMsg(fi.Body, &m) == nil {
			fi.MsgS, fi.MsgN = m.Stream, m.N
		}
	}
	if fi.ID == 0 && fi.HasErr {
		fi.ID = errID(fi.ErrTxt)
	}
	return fi
}
