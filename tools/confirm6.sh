#!/bin/bash
# usage: confirm6.sh <name> <dir-with-patch.diff+zz_demo_test.go>   (round 6: demo is TestZZDemo; every go test runs in its own
# network namespace so confirmations can run side by side). Scratch worktree of /repo HEAD: apply, build (+ -tags verif),
# root-package suite with the change, demo fails with / passes without.
set -u
export GOFLAGS=-mod=mod GOPROXY=off GOSUMDB=off GOTOOLCHAIN=local
name=$1; src=$2
wt=/tmp/confirm_$name
git -C /repo worktree remove --force $wt >/dev/null 2>&1; rm -rf $wt
git -C /repo worktree add -q --detach $wt HEAD || exit 2
cd $wt
res="name=$name"
if git apply --check $src/patch.diff 2>/dev/null; then git apply $src/patch.diff; res="$res apply=ok";
else echo "$res apply=FAILED"; git -C /repo worktree remove --force $wt; exit 1; fi
git diff > $wt/.applied.diff
go build ./... && go build -tags verif ./... && res="$res build=ok" || res="$res build=FAILED"
NS="unshare -n bash -c"
s=$($NS "ip link set lo up; cd $wt && go test -vet=off -count=1 -timeout 25m ." 2>&1 | tail -1)
case "$s" in ok*) res="$res suite=pass";; *) res="$res suite=FAIL($s)";; esac
cp $src/zz_demo_test.go .
d=$($NS "ip link set lo up; cd $wt && go test -vet=off -count=1 -timeout 5m -run 'TestZZDemo$' ." 2>&1 | tail -1)
case "$d" in ok*) res="$res demo_with=PASS(unexpected)";; *) res="$res demo_with=fail";; esac
git apply -R $wt/.applied.diff
d=$($NS "ip link set lo up; cd $wt && go test -vet=off -count=1 -timeout 5m -run 'TestZZDemo$' ." 2>&1 | tail -1)
case "$d" in ok*) res="$res demo_without=pass";; *) res="$res demo_without=FAIL($d)";; esac
cp $wt/.applied.diff /tmp/confirm_$name.applied.diff
cd /; git -C /repo worktree remove --force $wt; rm -rf $wt
echo "$res"
