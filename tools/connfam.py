#!/usr/bin/env python3
"""Pipeline for the properties decided on RpcConn (client Conn <-> server connection):
  1. exhaustive TLC of the intended design (Dev = {}) for the property's instances,
  2. TLC counterexamples of deviated models  -> directed schedules,
  3. TLC simulation behaviours of the intended design -> schedules,
  4. all schedules replayed through the real code (harness `vh replay`) -> traces,
  5. traces validated by TLC against RpcConnTrace (all invariants in every state),
  6. verdict from the implementation traces only."""
import json, os, sys, time, random
from vlib import *

SPECS = ['RpcConn.tla', 'RpcConnTrace.tla']

OWN = {   # invariant / action property -> property it decides
    'ReplyOwn': 'C01', 'SeqUnique': 'C01', 'EchoSeq': 'C01', 'ObsReply': 'C01',
    'AtMostOnce': 'C02', 'ResultStable': 'C02', 'CompletedHasResult': 'C02', 'Owed': 'C02',
    'NotHeldOnceCompleted': 'C02', 'ObsCount': 'C02', 'ObsKind': 'C02',
    'RefusedAfterShutdown': 'C03', 'NoRegisterAfterShutdown': 'C03', 'ReceivedNotSwept': 'C03',
    'SweepComplete': 'C03', 'AfterSweepAllDone': 'C03', 'ObsHang': 'C03',
    'ExecAtMostOnce': 'C04', 'ExecOnlySent': 'C04', 'PingNoExec': 'C04', 'OneResponsePerRequest': 'C04',
    'OkImpliesExecOnce': 'C04', 'RespondedImpliesExec': 'C04', 'NoMethodNoExec': 'C04',
    'ExecInOrder': 'C05', 'AtMostOneExecuting': 'C05', 'RespInOrder': 'C05', 'CompInOrder': 'C05',
    'ErrToOwner': 'C06', 'OkOnlyIfHandlerOk': 'C06', 'MarshalFailNoResidue': 'C06', 'ObsErrText': 'C06',
    'AbandonedHarmless': 'C19', 'CtxDoneOnlyAfterSignal': 'C19', 'ObsCtx': 'C19',
}
STATE_INVS = [k for k in OWN if k not in ('NoRegisterAfterShutdown', 'ReceivedNotSwept') and not k.startswith('Obs')]
ACTION_PROPS = ['NoRegisterAfterShutdown', 'ReceivedNotSwept']
OBS_INVS = ['ObsCount', 'ObsKind', 'ObsReply', 'ObsErrText', 'ObsCtx', 'ObsHang']

# trace rejection (no action of the model explains the event) -> owning property
REJECT_OWNER = {
    'c.register': 'C01', 'c.dispatch': 'C01',
    'c.refuse': 'C03', 'c.dropshutdown': 'C03', 'c.badframe': 'C03', 'c.close': 'C03', 'c.close.dup': 'C03',
    'c.unregister': 'C02', 'c.finish': 'C02', 'c.errdone': 'C02', 'c.ackdone': 'C02', 'c.eofsweep': 'C02',
    'call.signal': 'C02', 'c.sweep': 'C02', 'c.swept': 'C02',
    'h.begin': 'C04', 'h.end': 'C04', 'v.dispatch': 'C04', 'v.recv': 'C04', 'v.eof': 'C04', 'v.drop': 'C04', 'w.write': 'C04',
    'c.ctx.ret': 'C19',
}

def modes(cp=False, cd=False, sp=False, sd=False):
    return {'CliPipe': cp, 'CliDirect': cd, 'SrvPipe': sp, 'SrvDirect': sd}

def consts(calls, m, dev=(), wfail=0, mfail=0, dup=0, unk=0, cut=0, loss=0, close=0, ctx=()):
    calls = set(calls)
    c = {'Calls': calls, 'Pings': {x for x in calls if x % 4 == 3}, 'FailCalls': {x for x in calls if x % 4 == 2}, 'NoMethodCalls': {x for x in calls if x % 8 == 6},
         'CtxCalls': set(ctx) if ctx is not None else {x for x in calls if x % 4 == 0}}
    c.update(m)
    c.update({'MaxWFail': wfail, 'MaxMFail': mfail, 'MaxDup': dup, 'MaxUnk': unk, 'MaxCut': cut, 'MaxLoss': loss,
              'MaxClose': close, 'Dev': set(dev)})
    return c

def model_check(tag, c, invs=None, props=None, timeout=900, liveness=None):
    wd = scratch('mc_' + tag)
    if liveness:
        cfg = cfg_text('LiveSpec', c, [], liveness)
    else:
        cfg = cfg_text('Spec', c, invs if invs is not None else ['TypeOK'] + STATE_INVS,
                       props if props is not None else ACTION_PROPS)
    res = run_tlc(wd, 'RpcConn.tla', cfg, ['RpcConn.tla'], timeout=timeout)
    res['tag'] = tag
    res['consts'] = {k: (sorted(v) if isinstance(v, (set, frozenset)) else v) for k, v in c.items()}
    if not os.environ.get('VERIF_KEEP'):
        shutil.rmtree(wd, ignore_errors=True)
    return res

def to_steps(acts):
    steps = []
    for name, args in acts:
        a = [argval(x) for x in args]
        st = {'a': name}
        if name in ('WriteFailClosed', 'WriteFailInjected'):
            name = st['a'] = 'WriteFail'
        if name in ('Start', 'Refuse', 'Register', 'WriteOK', 'WriteFail', 'MarshalFail', 'Finish', 'CtxReturnDone', 'WqTake',
                    'CtxCancel', 'InjectDup', 'SrvExecBegin', 'SrvExecEnd', 'SrvRespond', 'SrvLookupFail'):
            st['c'] = a[0]
        elif name == 'ReaderEOF':
            st['b'] = bool(a[0])
        elif name == 'InjectUnk':
            st['b'] = bool(a[0])
        elif name == 'Cut':
            st['la'], st['lb'] = a[0], a[1]
        elif name == 'Close2b':
            st['a'] = 'Close2'
        elif name == 'Close2a':
            continue
        elif name in ('Initial', 'Init'):
            continue
        steps.append(st)
    return steps

def sched(name, c, acts, pad=24):
    cfg = {'CliPipe': c['CliPipe'], 'CliDirect': c['CliDirect'], 'SrvPipe': c['SrvPipe'], 'SrvDirect': c['SrvDirect'],
           'Calls': sorted(c['Calls']), 'Pings': sorted(c['Pings']), 'CtxCalls': sorted(c['CtxCalls']),
           'FailCalls': sorted(c['FailCalls']), 'NoMethodCalls': sorted(c.get('NoMethodCalls', ())), 'PadSize': pad}
    return {'name': name, 'cfg': cfg, 'steps': to_steps(acts)}

def deviation_schedule(tag, c, dev, invs=None, props=None):
    """TLC counterexample of the model deviated by `dev` -> schedule (or None + res)."""
    cc = dict(c); cc['Dev'] = set(dev)
    res = model_check('dev_' + tag, cc, invs, props, timeout=300)
    acts = error_trace(res)
    if not res['violated'] or not acts:
        return None, res
    return sched('dev:' + tag, c, acts), res

def sim_schedules(tag, c, num, depth, seed_):
    wd = scratch('sim_' + tag)
    cfg = cfg_text('Spec', c, [], [])
    behs, res = simulate(wd, 'RpcConn.tla', cfg, ['RpcConn.tla'], num, depth, seed_)
    shutil.rmtree(wd, ignore_errors=True)
    return [sched('sim:%s:%d' % (tag, i), c, b) for i, b in enumerate(behs)], res

def mode_key(cfg):
    return ''.join('1' if cfg[k] else '0' for k in ('CliPipe', 'CliDirect', 'SrvPipe', 'SrvDirect'))

def _run_vh(vh, wd, ss, par):
    with open(os.path.join(wd, 'sched.json'), 'w') as f:
        json.dump(ss, f)
    for fn in ('trace.ndjson', 'res.json', 'trace.ndjson.progress'):
        try: os.remove(os.path.join(wd, fn))
        except OSError: pass
    env = dict(os.environ, GOTRACEBACK='all')
    rc, o = sh([vh, 'replay', '-in', 'sched.json', '-out', 'trace.ndjson', '-res', 'res.json', '-par', str(par)],
               cwd=wd, timeout=1200, env=env)
    started, done = [], set()
    try:
        for ln in open(os.path.join(wd, 'trace.ndjson.progress')):
            w, n = ln.rstrip('\n').split(' ', 1)
            (started.append(n) if w == 'start' else done.add(n))
    except OSError:
        pass
    return rc, o, started, done

def is_lib_crash(out):
    return ('panic:' in out or 'fatal error:' in out) and 'github.com/hslam/rpc' in out

def replay(schedules, tag):
    """Run the schedules through the real code (worker subprocess).
    Returns ({mode: (tracefile, results, schedules)}, crashes)."""
    vh = build_harness()
    groups = {}
    for s in schedules:
        groups.setdefault(mode_key(s['cfg']), []).append(s)
    out, crashes = {}, []
    for mk, ss in groups.items():
        wd = scratch('rp_%s_%s' % (tag, mk))
        todo = list(ss)
        for attempt in range(6):
            rc, o, started, done = _run_vh(vh, wd, todo, 12)
            if rc == 0:
                break
            if not is_lib_crash(o):
                raise Machinery('harness replay failed (rc=%d):\n%s' % (rc, o[-3000:]))
            # the worker process died inside the library: find the schedule(s) that do it
            suspects = [s for s in todo if s['name'] in started and s['name'] not in done]
            culprits = []
            for s in suspects:
                if len(crashes) >= 3:
                    break
                wd1 = scratch('rp1_%s_%s' % (tag, mk))
                hits, last = 0, ''
                for k in range(3):
                    rc1, o1, _, _ = _run_vh(vh, wd1, [s], 1)
                    if rc1 != 0 and is_lib_crash(o1):
                        hits += 1; last = o1
                        if hits >= 2:
                            break
                shutil.rmtree(wd1, ignore_errors=True)
                if hits:
                    culprits.append(s['name'])
                    crashes.append({'schedule': s, 'mode': mk, 'crashes_in_3_isolated_runs': hits,
                                    'panic': last[:last.find('goroutine ', last.find('goroutine ') + 1)][:2500] if 'goroutine ' in last else last[:2500]})
            if not culprits:
                # not reproducible in isolation: report the batch crash as it stands, drop the suspects
                crashes.append({'schedule': suspects[0] if suspects else None, 'mode': mk, 'crashes_in_3_isolated_runs': 0,
                                'suspects': [s['name'] for s in suspects], 'panic': o[o.find('panic:'):][:2500]})
                culprits = [s['name'] for s in suspects]
            todo = [s for s in todo if s['name'] not in culprits]
            if len(crashes) >= 3:
                todo = None
                break
        else:
            # still crashing after several culprits were removed: enough evidence, skip the rest of this group
            continue
        if todo is None:
            break       # enough crashes for a verdict: do not grind through the remaining groups
        out[mk] = (os.path.join(wd, 'trace.ndjson'), json.load(open(os.path.join(wd, 'res.json'))), todo)
    return out, crashes

def split_traces(path):
    traces, cur = [], None
    for line in open(path):
        e = json.loads(line)
        if e['ev'] == 'reset':
            cur = [line]
            traces.append(cur)
        elif cur is not None:
            cur.append(line)
    return traces

def trace_cfg(mk, maxid):
    m = {'CliPipe': mk[0] == '1', 'CliDirect': mk[1] == '1', 'SrvPipe': mk[2] == '1', 'SrvDirect': mk[3] == '1'}
    c = {'MaxCallId': maxid, 'Calls': '<- TrCalls', 'Pings': '<- TrPings', 'CtxCalls': '<- TrCtx', 'FailCalls': '<- TrFail', 'NoMethodCalls': '<- TrNoMethod',
         'Dev': '<- Deviations'}
    c.update(m)
    for b in ('MaxWFail', 'MaxMFail', 'MaxDup', 'MaxUnk', 'MaxCut', 'MaxLoss', 'MaxClose'):
        c[b] = 1000
    return cfg_text('TrSpec', c, OBS_INVS + STATE_INVS, ACTION_PROPS,
                    'CONSTRAINT TrHigh\nPOSTCONDITION TrAccepted\nVIEW TrView')

import re
def validate(tracefile, mk, tag, names, max_findings=6):
    """Validate concatenated traces. Returns (accepted_count, findings, tlcstats)."""
    traces = split_traces(tracefile)
    idx = list(range(len(traces)))
    findings = []
    stats = {'states': 0, 'distinct': 0, 'runs': 0, 'events': sum(len(t) for t in traces)}
    accepted = 0
    while idx and len(findings) < max_findings:
        wd = scratch('tv_%s_%s' % (tag, mk))
        lines = []
        starts = []
        for i in idx:
            starts.append(len(lines) + 1)
            lines.extend(traces[i])
        maxid = 4
        for ln in lines:
            c = json.loads(ln).get('c', 0)
            maxid = max(maxid, c)
        with open(os.path.join(wd, 'trace.ndjson'), 'w') as f:
            f.writelines(lines)
        res = run_tlc(wd, 'RpcConnTrace.tla', trace_cfg(mk, maxid), SPECS, workers=1, timeout=600, deque=True)
        stats['states'] += res['states']; stats['distinct'] += res['distinct']; stats['runs'] += 1
        out = res['out']
        if res['complete'] and 'TRACE-REJECTED-AT' not in out:
            accepted += len(idx)
            break
        pos, what, kind = None, None, None
        if res['violated']:
            what, kind = res['violated'][0], 'invariant'
            ls = re.findall(r'^/\\ l = (\d+)', out, re.M)
            pos = int(ls[-1]) - 1 if ls else None
        else:
            m = re.search(r'TRACE-REJECTED-AT", (\d+)', out)
            if m:
                pos, kind, what = int(m.group(1)), 'rejected', 'no action of the model explains the event'
        if pos is None:
            raise Machinery('trace validation produced no verdict:\n' + out[-3000:])
        # which trace?
        k = max(j for j in range(len(idx)) if starts[j] <= pos)
        ti = idx[k]
        ev = json.loads(lines[pos - 1]) if 1 <= pos <= len(lines) else {}
        prefix = [json.loads(x) for x in traces[ti]]
        findings.append({'trace': ti, 'name': names[ti] if ti < len(names) else '?', 'kind': kind, 'what': what,
                         'event': ev, 'pos_in_trace': pos - starts[k] + 1, 'mode': mk,
                         'trace_events': prefix})
        accepted += k          # traces before it were fine
        idx = idx[k + 1:]
        if not os.environ.get('VERIF_KEEP'):
            shutil.rmtree(wd, ignore_errors=True)
    return accepted, findings, stats

def owner_of(f):
    if f['kind'] == 'invariant':
        return OWN.get(f['what'], '?')
    return REJECT_OWNER.get(f['event'].get('ev', ''), 'C02')

def signature(f):
    ev = f['event'].get('ev', '')
    return '%s:%s@%s' % (f['kind'], f['what'] if f['kind'] == 'invariant' else 'rejected', ev)


def run_stress(cfgs, tag, shards=8, timeout=600, cmd='stress'):
    """Run stress configurations in parallel worker subprocesses. Returns (results, crashes)."""
    import subprocess
    vh = build_harness()
    wd = scratch('st_' + tag)
    procs = []
    groups = [cfgs[i::shards] for i in range(shards)]
    for i, g in enumerate(groups):
        if not g:
            continue
        fin, fout = os.path.join(wd, 'in%d.json' % i), os.path.join(wd, 'out%d.json' % i)
        json.dump(g, open(fin, 'w'))
        env = dict(os.environ, GOTRACEBACK='all', VERIF_SOCKDIR=wd)
        p = subprocess.Popen([vh, cmd, '-in', fin, '-out', fout], cwd=wd, env=env, stdout=subprocess.PIPE,
                             stderr=subprocess.STDOUT, universal_newlines=True)
        procs.append((p, g, fout))
    results, crashes = [], []
    for p, g, fout in procs:
        try:
            o, _ = p.communicate(timeout=timeout)
        except subprocess.TimeoutExpired:
            import signal as _signal
            p.send_signal(_signal.SIGQUIT)      # goroutine dump: where is the worker stuck?
            try:
                o, _ = p.communicate(timeout=10)
            except subprocess.TimeoutExpired:
                p.kill(); o, _ = p.communicate()
            o += '\n[harness] stress worker timed out'
        done = []
        if os.path.exists(fout):
            try: done = json.load(open(fout)) or []
            except ValueError: done = []
        results.extend(done)
        if p.returncode != 0:
            cur = g[len(done)] if len(done) < len(g) else None
            if is_lib_crash(o):
                i = o.find('panic:') if 'panic:' in o else o.find('fatal error:')
                crashes.append({'config': cur, 'panic': o[i:i + 2500]})
            else:
                raise Machinery('stress worker failed (rc=%s):\n%s' % (p.returncode, o[-2500:]))
    if not os.environ.get('VERIF_KEEP'):
        shutil.rmtree(wd, ignore_errors=True)
    return results, crashes
