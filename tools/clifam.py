#!/usr/bin/env python3
"""Pipeline for the properties decided on Client.tla (C16, C17, C18)."""
import json, os, re
from vlib import *
import connfam as cf

SPECS = ['Client.tla', 'ClientTrace.tla']
INVS = ['ListFromTargets', 'ListNoDup', 'CursorInRange', 'RRDistinct', 'LatBounded', 'NoWaitAfterClose', 'WaiterOwed', 'WaitersAreWaiting', 'ErrKinds']
PROPS = ['RouteInTargets', 'RandomInList', 'LeastTimeMinimal', 'ProbeOncePerTick', 'ClosedFailsAtOnce', 'DetectReleases', 'ProbeReleases', 'ProbeDropsDead', 'CtxHarmless']
LIVE = ['WaitersReleased', 'CloseReleases']
TRACE_INVS = ['RouteOK', 'PolicyOK', 'WaitersOK', 'CancelOK', 'ListFromTargets', 'ListNoDup', 'CursorInRange', 'RRDistinct', 'NoWaitAfterClose', 'WaiterOwed', 'WaitersAreWaiting']
OWN = {'ListFromTargets': 'C16', 'ListNoDup': 'C16', 'CursorInRange': 'C16', 'RouteInTargets': 'C16', 'RouteOK': 'C16',
       'RRDistinct': 'C17', 'RandomInList': 'C17', 'LeastTimeMinimal': 'C17', 'ProbeOncePerTick': 'C17', 'LatBounded': 'C17', 'PolicyOK': 'C17',
       'NoWaitAfterClose': 'C18', 'WaiterOwed': 'C18', 'WaitersAreWaiting': 'C18', 'ErrKinds': 'C18', 'ClosedFailsAtOnce': 'C18', 'WaitersOK': 'C18',
       'WaitersReleased': 'C18', 'DetectReleases': 'C18', 'ProbeDropsDead': 'C18', 'ProbeReleases': 'C18', 'CloseReleases': 'C18', 'CtxHarmless': 'C19', 'CancelOK': 'C19'}

def consts(addrs=('a', 'b'), callers=(1, 2), policy='rr', upd=(('a', 'b'), ('b',)), init=('a', 'b'), maxupd=1, flips=1, calls=3, fb=1,
           lats=(10,), maxlat=100, director=0, dev=(), ctxcalls=False):
    return {'Addrs': set(addrs), 'Callers': set(callers), 'Policy': policy, 'UpdateSets': 'raw:{' + ', '.join(tla(set(u)) for u in upd) + '}',
            'InitTargets': set(init), 'MaxDirector': director, 'MaxUpdates': maxupd, 'MaxFlips': flips, 'MaxCalls': calls, 'MaxFallbacks': fb,
            'Lats': set(lats), 'MaxLat': maxlat, 'Dev': set(dev), 'DevForced': False, 'CtxCalls': bool(ctxcalls)}

def model_check(tag, c, timeout=900, live=False):
    wd = scratch('cmc_' + tag)
    cfg = cfg_text('LiveSpec', c, [], LIVE) if live else cfg_text('Spec', c, INVS, PROPS)
    res = run_tlc(wd, 'Client.tla', cfg, ['Client.tla'], timeout=timeout)
    res['tag'] = tag
    res['consts'] = {k: (sorted(v, key=str) if isinstance(v, (set, frozenset)) else v) for k, v in c.items()}
    shutil.rmtree(wd, ignore_errors=True)
    return res

def to_steps(acts):
    steps = []
    for name, args in acts:
        if name == 'Update':
            steps.append({'a': 'Update', 'set': setval(args[0])})
        elif name == 'Detect':
            steps.append({'a': 'Detect'})
        elif name == 'ProbeDone':
            steps.append({'a': 'ProbeDone', 'addr': argval(args[0]), 'g': argval(args[1])})
        elif name.startswith('Route'):
            steps.append({'a': 'Route', 'k': argval(args[0])})
        elif name in ('WokenPick', 'Timeout', 'CallDone', 'Again', 'CtxEnd'):
            steps.append({'a': name, 'k': argval(args[0])})
        elif name in ('Close', 'FallbackBegin', 'FallbackEnd', 'TickElapsed'):
            steps.append({'a': name})
        elif name in ('Flip', 'SetDirector'):
            a = argval(args[0])
            steps.append({'a': name, 'addr': '' if a == 'none' else a})
    return steps

def sched(name, c, acts, form='call'):
    cfg = {'Addrs': sorted(c['Addrs']), 'Callers': sorted(c['Callers']), 'Policy': c['Policy'], 'Health': sorted(c['Addrs']), 'Form': form}
    steps = [{'a': 'Update', 'set': sorted(c['InitTargets'])}] + to_steps(acts)
    return {'name': name, 'cfg': cfg, 'steps': steps}

def deviation_schedule(tag, c, dev, form='call', live=False):
    cc = dict(c); cc['Dev'] = set(dev); cc['DevForced'] = bool(live)
    res = model_check('dev_' + tag, cc, timeout=300, live=live)
    acts = error_trace(res)
    if live and 'Temporal properties were violated' in res['out']:
        res['violated'] = ['liveness']
    if not res['violated'] or not acts:
        return None, res
    return sched('dev:' + tag, c, acts, form), res

def sim_schedules(tag, c, num, depth, seed_, forms=('call',)):
    wd = scratch('csim_' + tag)
    behs, res = simulate(wd, 'Client.tla', cfg_text('Spec', c, [], []), ['Client.tla'], num, depth, seed_)
    shutil.rmtree(wd, ignore_errors=True)
    return [sched('sim:%s:%d' % (tag, i), c, b, forms[i % len(forms)]) for i, b in enumerate(behs)], res

def group_key(cfg):
    return '%s_%s' % (cfg['Policy'], '-'.join(cfg['Addrs']))

def replay(schedules, tag):
    vh = build_harness()
    groups = {}
    for s in schedules:
        groups.setdefault(group_key(s['cfg']), []).append(s)
    out, crashes = {}, []
    for gk, ss in groups.items():
        wd = scratch('crp_%s_%s' % (tag, gk))
        json.dump(ss, open(os.path.join(wd, 'sched.json'), 'w'))
        env = dict(os.environ, GOTRACEBACK='all')
        rc, o = sh([vh, 'creplay', '-in', 'sched.json', '-out', 'trace.ndjson', '-res', 'res.json', '-par', '12'], cwd=wd, timeout=1200, env=env)
        if rc != 0:
            if cf.is_lib_crash(o):
                i = o.find('panic:') if 'panic:' in o else o.find('fatal error:')
                crashes.append({'group': gk, 'panic': o[i:i + 2500]})
                continue
            raise Machinery('client replay failed (rc=%d):\n%s' % (rc, o[-3000:]))
        out[gk] = (os.path.join(wd, 'trace.ndjson'), json.load(open(os.path.join(wd, 'res.json'))), ss)
    return out, crashes

def trace_cfg(cfg, callers):
    c = consts(addrs=cfg['Addrs'], callers=callers, policy=cfg['Policy'], upd=((),), init=(), maxupd=100000, flips=100000, calls=10000000,
               fb=100000, lats=(1,), maxlat=6000000, director=100000, ctxcalls=True)
    return cfg_text('TrSpec', c, TRACE_INVS, [], 'CONSTRAINT TrHigh\nPOSTCONDITION TrAccepted')

def validate(tracefile, cfg, tag, names, max_findings=5):
    traces = cf.split_traces(tracefile)
    idx = list(range(len(traces)))
    findings, accepted = [], 0
    stats = {'states': 0, 'distinct': 0, 'events': sum(len(t) for t in traces)}
    while idx and len(findings) < max_findings:
        wd = scratch('ctv_' + tag)
        lines, starts = [], []
        for i in idx:
            starts.append(len(lines) + 1)
            lines.extend(traces[i])
        callers = set(cfg['Callers'])
        for ln in lines:
            if '"api.call"' in ln:
                callers.add(json.loads(ln)['c'])
        open(os.path.join(wd, 'trace.ndjson'), 'w').writelines(lines)
        res = run_tlc(wd, 'ClientTrace.tla', trace_cfg(cfg, callers), SPECS, workers=1, timeout=900, deque=True)
        stats['states'] += res['states']; stats['distinct'] += res['distinct']
        out = res['out']
        if res['complete'] and 'TRACE-REJECTED-AT' not in out:
            accepted += len(idx)
            shutil.rmtree(wd, ignore_errors=True)
            break
        pos = what = kind = None
        if res['violated']:
            what, kind = res['violated'][0], 'invariant'
            ls = re.findall(r'^/\\ l = (\d+)', out, re.M)
            pos = int(ls[-1]) - 1 if ls else None
            bads = re.findall(r'^/\\ bad = (.*)$', out, re.M)
            detail = bads[-1] if bads else ''
        else:
            m = re.search(r'TRACE-REJECTED-AT", (\d+)', out)
            if m:
                pos, kind, what, detail = int(m.group(1)), 'rejected', 'no action of the model explains the event', ''
        if pos is None:
            raise Machinery('client trace validation produced no verdict:\n' + out[-3000:])
        k = max(j for j in range(len(idx)) if starts[j] <= pos)
        ti = idx[k]
        ev = json.loads(lines[pos - 1]) if 1 <= pos <= len(lines) else {}
        findings.append({'trace': ti, 'name': names[ti] if ti < len(names) else '?', 'kind': kind, 'what': what, 'detail': detail, 'event': ev,
                         'pos_in_trace': pos - starts[k] + 1, 'trace_events': [json.loads(x) for x in traces[ti]]})
        accepted += k
        idx = idx[k + 1:]
        shutil.rmtree(wd, ignore_errors=True)
    return accepted, findings, stats
