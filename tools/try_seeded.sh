#!/bin/bash
# usage: try_seeded.sh <seeded-name> <property> [<property>...]   (applies the seeded change to /repo, runs the quick checks, reverts)
name=$1; shift
cd /repo || exit 2
if ! git diff --quiet; then echo "/repo has uncommitted changes"; exit 2; fi
if git apply --check /verif/seeded/$name/patch.diff 2>/dev/null; then git apply /verif/seeded/$name/patch.diff; else patch -p1 -F3 -s < /verif/seeded/$name/patch.diff || { git checkout -- .; echo "patch does not apply"; exit 2; }; fi
for p in "$@"; do
  echo "--- $name vs $p"
  (cd /verif && env VERIF_NO_EVIDENCE=1 ${SKIPMC:+VERIF_SKIP_MC=1} ./check $p --tier ${TIER:-quick} 2>&1 | grep -E "VIOLATION|held on|VIOLATED|MACHINERY|^    C" | cut -c1-300 | head -${LINES_MAX:-8})
done
git checkout -- . ; rm -f /repo/*.orig /repo/*.rej; git status --short | head -3
