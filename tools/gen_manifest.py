#!/usr/bin/env python3
"""Regenerates /verif/MANIFEST.json from the table below (single source of truth)."""
import json, os, subprocess
V = os.path.dirname(os.path.dirname(os.path.abspath(__file__)))
props = [json.loads(l) for l in open(os.path.join(V, 'properties.jsonl'))]

MC = 'model_checking'
CONN_NOTE = ('Trusted base: TLC; the RpcConn/RpcConnTrace specifications; the harness\'s in-memory socket.Messages pair standing for the '
             'network at frame granularity; the add-only hooks (build tag verif) reporting the library\'s linearisation points; bounded waits '
             '(3 s) deciding "never completes". Bounds: <= 3-6 calls per connection, fault budgets <= 2, one connection pair per run.')
TRANS_NOTE = ('Trusted base: TLC; Transport.tla / TransportTrace.tla; in-process servers reached through Transport.Dial over the harness wire; '
              'hooks stamped under connsMu; real time in units of 6 ms with half a unit of slack; synchronous Call only (R3); R4 for callers not yet registered. '
              'Bounds: <= 2 addresses, <= 3 callers, MaxConnsPerHost <= 3, clock <= 8 units.')
CLI_NOTE = ('Trusted base: TLC; Client.tla / ClientTrace.tla; the scripted RoundTripper standing for Transport; hooks under Client.lock; the detector paced by the real '
            '100 ms ticker and released by a gate; estimate arithmetic re-computed in the harness. Bounds: <= 4 targets, <= 3 callers, <= 3 updates.')
STREAM_NOTE = ('Trusted base: TLC; RpcStream.tla / RpcStreamTrace.tla (the trace specification follows the intended design only); the harness wire and puppet handler; '
               'hooks under stream.mut (read/stop linearisation points); 2-3 s bounds for "blocked forever". Bounds: <= 3 streams per connection, <= 5 messages per direction in gated runs.')
CLAIMED = {
 'C01': dict(level=MC, ref='6 C01', technique='TLC model checking of RpcConn + trace validation of TLC-driven executions of the real Conn/Server',
   text='Exhaustive TLC check (all interleavings of <=3-4 outstanding calls, all server completion orders, duplicate/unknown-sequence frames, every I/O mode) that a reply is F(own arguments) and sequence numbers are unique/echoed; TLC behaviours (random + deviation counterexamples EchoWrongSeq, SeqReuse) are replayed through the real code with payload sizes 0..70000 and every recorded trace is validated against the specification with the reply digest recomputed by the caller.',
   note=CONN_NOTE),
 'C02': dict(level=MC, ref='6 C02', technique='TLC model checking of RpcConn + trace validation of TLC-driven executions of the real Conn/Server',
   text='Exhaustive TLC check of AtMostOnce / ResultStable / Owed over all interleavings of {register, write ok/fail, response, duplicate, unknown sequence, peer cut with frame loss, read error, local Close}; counterexamples of the deviated models (sweep keeps entries, write-failure always completes, dispatch keeps entry, sweep skips) and random TLC behaviours are forced on the real code through gates; every hook/wire/API trace must be a behaviour of the specification, with Done signals counted per call.',
   note=CONN_NOTE),
 'C03': dict(level=MC, ref='6 C03', technique='TLC model checking (safety + liveness under fairness) of RpcConn + trace validation of TLC-driven executions',
   text='TLC checks that after shutdown/closing a send is refused, that the sweep completes everything, that a response taken off the wire before the cut is never swept (action property), and, under weak fairness of library steps, that connection loss leads to completion of every outstanding call; cut/close schedules from TLC (every frame boundary, with loss) are replayed on the real code, a final observation step flags any call left without completion (hang) after the connection ended.',
   note=CONN_NOTE),
 'C04': dict(level=MC, ref='6 C04', technique='TLC model checking of RpcConn (server half) + trace validation of TLC-driven executions',
   text='TLC checks ExecAtMostOnce / ExecOnlySent / PingNoExec / OneResponsePerRequest / OkImpliesExecOnce over all arrival batchings, server modes and cut points; deviation counterexamples (DupExec, PingRunsHandler) and random behaviours are replayed against the real ServeCodec with a logging handler whose begin/end events and the response frames on the wire are validated against the specification.',
   note=CONN_NOTE),
 'C05': dict(level=MC, ref='6 C05', technique='TLC model checking of RpcConn (pipelining modes) + trace validation of TLC-driven executions',
   text='TLC checks ExecInOrder / AtMostOneExecuting / RespInOrder / CompInOrder for client+server pipelining in queued and direct I/O; the counterexamples of ErrorInline, UnorderedFinish and UnorderedExec are replayed on the real code with the body codec holding completions back, and completion/execution order in each recorded trace is validated.',
   note=CONN_NOTE),
 'C06': dict(level=MC, ref='6 C06', technique='TLC model checking of RpcConn + trace validation of TLC-driven executions',
   text='TLC checks ErrToOwner / OkOnlyIfHandlerOk / MarshalFailNoResidue with failing and succeeding calls in flight together; replays compare the error text at the first signal and again after further traffic (ObsErrText), and the pending table after client-side encode failures.',
   note=CONN_NOTE),
 'C09': dict(level=MC, ref='6 C09', technique='TLC model checking of RpcStream.tla + trace validation of stream traffic of the real Conn/Server + ungated scenarios (poll mode)',
   text='Exhaustive TLC check (1-2 streams, pushes and client messages, cut and close at any point) that each end reads a prefix of what the other wrote and that nothing written on an open stream is lost, with the open handshake in the code\'s own steps (register, ack, handler start, reader-side classification by the phase of the opening call); counterexamples of AckAfterHandlerStart / FlipInCaller / DupDeliver / CrossDeliver and random behaviours are replayed frame by frame on the real code with a puppet handler; every ReadMessage result, frame and dispatch is validated against the specification; ungated scenarios on UNIX sockets (fragmenting socket, poll-mode branch with 1-3 readers) check echo sequences of several streams interleaved with unary calls and pings.',
   note=STREAM_NOTE),
 'C10': dict(level=MC, ref='6 C10', technique='TLC model checking (safety + liveness) of RpcStream.tla + trace validation + ungated close/disconnect scenarios incl. poll mode',
   text='TLC checks StreamsStoppedAfterLoss / SiblingsUndisturbed and, under fairness of library steps and of readers, HandlersReturn / ClosedStreamUnblocks for ServeCodec and poll teardown; counterexamples of NoClientSweep / CloseWrongEntry / PollNoStreamSweep and random behaviours are replayed; at the end of every run no ReadMessage, NewStream or Close may still be blocked and every handler must have been able to return; scenarios close streams or drop the connection under blocked reads on poll and non-poll servers with sibling streams.',
   note=STREAM_NOTE),
 'C07': dict(level='exploration', ref='6 C07', technique='TLC-enumerated boundary vectors of Wire.tla (the documented formats as TLA+ operators) compared byte for byte with the real encoders',
   text='Wire.tla writes the protobuf, code and JSON header formats and the upgrade byte as pure operators (varints as base-128 digit lists so 64-bit sequence numbers fit); TLC enumerates the vector space (every encoder x direction x field boundary 0/1/127/128/16383/16384/2097151/2097152 x sequence boundaries up to 2^64-1 x output-buffer shapes nil/small/exact/large/dirty) and prints each vector with its expected encoding; the harness encodes each with the real encoder into the prescribed reused buffer, compares the bytes with the specification (JSON key by key), decodes them back and compares the fields, checks foreign encodings of the same format decode, and does the same for all 32 upgrade flag combinations and every byte 0..255. Not a model-checking claim: the property is about a pure function, so the specification serves as the oracle and the generator.',
   note='Trusted base: TLC; Wire.tla as the statement of the documented formats; the harness filler (seeded bytes, valid UTF-8 for JSON). Bounds: field lengths up to 2 MiB, one field at its boundary at a time plus corners.'),
 'C08': dict(level='fault_enumeration', ref='6 C08', technique='TLC-enumerated dispatch cases (SrvDispatch.tla) and teardown model (SrvTeardown.tla) + exhaustive truncation/corruption of real frames against live servers and clients in worker processes',
   text='SrvDispatch.tla makes request dispatch a total function of (upgrade byte 0..255, method kind, argument kind, known stream id) to an outcome class; TLC enumerates the 6144 cases and each is sent as a frame to a real server whose answer class must match, after which a well-formed probe must still be served; SrvTeardown.tla checks the reader/decode-queue/handler/WaitGroup protocol of ServeCodec and the poll branch (no Add after Wait began, codec closed after the last handler) and its WaitBeforeDrain deviation gives the burst schedules that are run against real servers (N queued requests then disconnect); every truncation and single-byte corruptions (xor 0x01 / 0x80 / 0xFF / zero at each position) of every valid frame under every header encoder is delivered to a server and to a client, each in a crash-isolated worker with a progress file so a panic is attributed to the exact frame; other connections must keep being served.',
   note='Trusted base: TLC; the worker harness (rawConn frames on a UNIX socket); a crash is a process exit with a Go panic banner from library frames. Bounds: the valid frames are those of the harness workload (unary, heartbeat, stream open/message/close, error responses) under each header encoder; burst sizes and repetitions are in the evidence file.'),
 'C11': dict(level='exploration', ref='6 C11', technique='TLC model checking of Buffers.tla (buffer ownership) + retention workloads on the real library bound path by path to the model; BuffersCtx.tla cases against the real client',
   text='Buffers.tla models pooled frame buffers shared by all connections (Recv / Hand / Release) with the copy rule of each data path; TLC checks exhaustively that no value held by user code is backed by a released buffer unless NoCopy was requested on that path, and that each deviation of the catalogue (NoCopyReqArgs, NoCopyReply, NoCopyStreamMsg, ErrTextAlias, ReleaseBeforeDecode) violates an invariant; each path is bound to a workload where user code keeps what it was handed (handler arguments, replies, error values, stream messages on both ends) under aliasing codecs, unaligned buffer sizes, payload sizes swept around the buffer size and its aligned capacity, two connections sharing the pools, then churn traffic, and everything kept is compared again; BuffersCtx.tla enumerates capacity x length cases of the context-buffer placement rule, each run on the real client with guard bytes. The model decides the design; conformance of the code is by observation of changed bytes, hence exploration rather than model checking.',
   note='Trusted base: TLC; Buffers.tla; the stress engine and its aliasing codec. Pool reuse is provoked by traffic, not forced.'),
 'C12': dict(level='exploration', ref='6 C12', technique='TLC enumeration of the configuration space (Config.tla) + the same seeded workload on the real library under a pairwise-covering (quick) / sampled (thorough) set of configurations, transcripts compared',
   text='Config.tla states which combinations are supported (network x TLS x header encoder x body codec x configured by name or constructor x poll x pipelining x direct I/O x context buffer x NoCopy x client modes x buffer size, with the documented exclusions) and that name/constructor resolution is symmetric between client and server; TLC enumerates the 64512 configurations; the harness hosts a real server and client per chosen configuration, runs one seeded workload (sizes 0..80000, failing calls, every call form and handler shape) and requires every call to match the expected transcript and all transcript digests to agree.',
   note='Trusted base: TLC; Config.tla; the stress engine; TLS with a harness-generated certificate; poll branch hosted by the harness listener. Quick covers all pairs of settings, thorough adds 6000 random configurations.'),
 'C13': dict(level=MC, ref='6 C13', technique='TLC model checking of Transport.tla + trace validation of pool decisions of the real rpc.Transport',
   text='Exhaustive TLC check of PoolBound / IdleBound / OpenBound / NoLeak over all interleavings of concurrent getConn (three paths), call registration and return, housekeeping passes, CloseIdleConnections, Close and server kill/restart; TLC behaviours, the counterexamples of DialNoLimit / EnqueueNoLimit / OverflowNotClosed and ungated concurrent bursts (including non-positive and over-large limits) are run on the real Transport; every pool decision, stamped under connsMu, is replayed on the model and the bounds are evaluated in every state.',
   note=TRANS_NOTE),
 'C14': dict(level=MC, ref='6 C14', technique='TLC model checking of Transport.tla + trace validation of pool decisions of the real rpc.Transport',
   text='TLC checks RightAddress / PooledRightAddress / NoDeadHandout / RecoveryBound with an explicit clock over all spacings of calls relative to KeepAlive, IdleConnTimeout and housekeeping passes and all kill/restart sequences; the counterexamples of NoAliveCheckOnIdle / WrongAddress / NoMarkDead and random behaviours are replayed on the real Transport (housekeeping passes released one by one through a gate, servers killed and restarted), each hand-out is checked against the model (address, dead mark) and each reply carries the identity of the server that answered.',
   note=TRANS_NOTE),
 'C15': dict(level=MC, ref='6 C15', technique='TLC model checking of Transport.tla + trace validation of pool decisions of the real rpc.Transport',
   text='TLC checks SpareBusy (no housekeeping close while calls are registered) and CloseClosesAll; the counterexamples of IdleCloseIgnoresBusy / RetireBusy / CloseIdleBusy hold a caller between getConn and registration (t.got.gate) while passes run, on the real Transport; the trace specification tracks registered calls per connection and flags any housekeeping close of a busy connection, and the socket count after Close must be zero.',
   note=TRANS_NOTE),
 'C16': dict(level=MC, ref='6 C16', technique='TLC model checking of Client.tla + trace validation of routing decisions of the real rpc.Client',
   text='Exhaustive TLC check of RouteInTargets / ListFromTargets / CursorInRange over all interleavings of Update, detector passes, probe completions of current and replaced target objects, Director answers and concurrent calls; TLC behaviours and the counterexamples of StaleProbeReinserts / ListFromStaleMap are replayed on the real Client over a scripted RoundTripper (Update called with duplicates and empty strings in varying positions); every routing decision is checked against the model\'s target set and live list, and the RoundTripper records the address each call reached.',
   note=CLI_NOTE),
 'C17': dict(level=MC, ref='6 C17', technique='TLC model checking of Client.tla + trace validation of scheduling decisions of the real rpc.Client',
   text='TLC checks RRDistinct, RandomInList, LeastTimeMinimal and ProbeOncePerTick for 2-3 targets; on the real Client (2-4 targets, every policy) each logged pick is checked against the model: cursor position, membership in the live list, minimal estimate for non-probe picks (estimates tracked from the logged updates), at least Tick between probes, and the documented moving average re-computed from the logged inputs.',
   note=CLI_NOTE),
 'C18': dict(level=MC, ref='6 C18', technique='TLC model checking (safety + liveness) of Client.tla + trace validation of waiter events of the real rpc.Client',
   text='TLC checks NoWaitAfterClose / WaiterOwed / ClosedFailsAtOnce / DetectReleases / ProbeReleases and, under weak fairness of library steps, WaitersReleased and CloseReleases, over all races of waiter registration with probe completion, detector passes, Close, Fallback begin/end and timeouts; the counterexamples of LostWakeup / DetectNoWake / NoWakeOnClose / WaitAfterClose / TimeoutLeaks and random behaviours are replayed on the real Client with every call form; wake-ups are folded into the pass that caused them and compared with the model, error kinds per call form are checked, and nobody may stay blocked after Close.',
   note=CLI_NOTE),
 'C19': dict(level=MC, ref='6 C19', technique='TLC model checking of RpcConn (CallWithContext) + trace validation of TLC-driven executions',
   text='TLC checks all orders of cancellation versus response (CtxReturnDone / CtxCancel), that an abandoned call stays harmless when its late response is dispatched; replays cancel contexts at TLC-chosen points with sibling calls in flight and validate each trace; the API observation requires ctx error exactly once.',
   note=CONN_NOTE),
 'C20': dict(level=MC, ref='6 C20', technique='TLC model checking of Lifecycle.tla + replay of TLC behaviours on the real Server/Conn/Transport/Client with the abstract state compared after every step',
   text='Lifecycle.tla models the resources of the four closable objects (listener and accept loop, per-connection server goroutine, handlers and stream handlers, accepted sockets; client socket and reader; housekeeping goroutine and pooled connections; detector, probes, Fallback timers, parked callers) with one action per critical section of the code; TLC checks exhaustively - every interleaving of user-level steps with the library\'s internal steps, every Close up to twice in any order - that a closed participant holds nothing once the library has settled, the return values of repeated Close, and (under fairness) that Server.Close makes Listen return; each of 11 deviations violates an invariant and its counterexample is replayed; behaviours generated by TLC simulation to their terminal states are replayed on the real objects over a counting UNIX socket: after every step the goroutine profile by function, the open sockets per connection, the Close return values and Listen\'s return must equal the projection of the model state, and at the end no goroutine of the library and no socket may be left.',
   note='Trusted base: TLC; Lifecycle.tla / LifecycleGen.tla; the counting socket; goroutine profiles matched by function name; the harness RoundTripper between Client and Transport (gates detector probes); settle bound 3 s, failing histories re-run alone with 10 s. Bounds: <= 2 direct connections, <= 2 pool slots, <= 5 usage operations, every Close twice.'),
}

checks = []
for p in props:
    pid = p['id']
    if pid not in CLAIMED:
        continue
    c = CLAIMED[pid]
    checks.append({
        'property_id': pid,
        'quick_cmd': './check %s --tier quick' % pid,
        'thorough_cmd': './check %s --tier thorough' % pid,
        'evidence_file': '/verif/evidence/%s.json' % pid,
        'replay_cmd_template': './check %s --replay {path}' % pid,
        'engine': 'tlc+vh',
        'level_claimed': {'category': c['level'], 'text': c['text'], 'design_ref': 'DESIGN.md section ' + c['ref']},
        'level_note': c['note'],
        'technique': c['technique'],
    })
hooks = subprocess.check_output(['git', '-C', '/repo', 'log', '--format=%h %s']).decode().splitlines()
hook_commits = [l.split()[0] for l in hooks if l.split(' ', 1)[1].startswith('verif:')]
m = {
 'version': 1,
 'setup_cmd': 'cd /verif/harness && cp /repo/go.sum . && mkdir -p /verif/.work && GOFLAGS=-mod=mod GOPROXY=off GOSUMDB=off GOTOOLCHAIN=local go build -tags verif -o /verif/.work/vh .',
 'hooks': {'guard': 'verif',
           'enable': 'go build -tags verif (the harness module in /verif/harness has `replace github.com/hslam/rpc => /repo`; every check rebuilds it from /repo\'s working tree)',
           'baseline_off_cmd': 'cd /repo && GOFLAGS=-mod=mod GOPROXY=off GOSUMDB=off go test -json -vet=off -count=1 -timeout 25m ./...',
           'source_commits': list(reversed(hook_commits)), 'add_only': True},
 'engines': [{'name': 'tlc+vh', 'path': '/verif/check', 'serves_properties': [c['property_id'] for c in checks],
              'kind_free_text': 'TLC 1.8 (model checking, simulation, trace validation of /verif/spec/*.tla) + Go conformance harness /verif/harness (vh) driving the real library built with -tags verif'}],
 'checks': checks,
 'notes': 'Design: /verif/DESIGN.md. Known findings / fixed defects: /verif/known_findings.json. Seeded changes used to test the machinery: /verif/seeded/.',
 'not_applicable': [{'property_id': p['id'], 'reason': 'check under construction (DESIGN.md section 10.2 gives the order); not claimed yet'}
                    for p in props if p['id'] not in CLAIMED],
}
json.dump(m, open(os.path.join(V, 'MANIFEST.json'), 'w'), indent=1)
print('claimed:', [c['property_id'] for c in checks])
