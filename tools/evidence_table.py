#!/usr/bin/env python3
"""Prints the table of DESIGN.md 12.3 from the evidence files (quick tier) - and, with a directory argument, from another set."""
import json, sys, os
d = sys.argv[1] if len(sys.argv) > 1 else '/verif/evidence'
print('| id | level | model states explored (distinct) | executions of the real code judged | wall |')
print('|---|---|---|---|---|')
for i in range(1, 21):
    p = 'C%02d' % i
    f = os.path.join(d, p + '.json')
    if not os.path.exists(f):
        continue
    e = json.load(open(f)); c = e['coverage']
    st = c.get('states', 0)
    sts = '%.1f M' % (st / 1e6) if st >= 1e6 else ('%d k' % (st // 1000) if st >= 1000 else str(st))
    ex = []
    for k, label in (('schedules_replayed', 'behaviours replayed'), ('traces_validated_against_impl', 'traces validated'), ('evaluations', 'cases / workloads'),
                     ('calls', 'calls'), ('steps_replayed', 'lifecycle steps')):
        if c.get(k):
            ex.append('%s %s' % (c[k], label))
    print('| %s | %s | %s | %s | %.0f s |' % (p, e['level'], sts, ', '.join(ex), e['wall_s']))
