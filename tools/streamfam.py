#!/usr/bin/env python3
"""Pipeline for the properties decided on RpcStream.tla (C09, C10)."""
import json, os, re
from vlib import *
import connfam as cf

SPECS = ['RpcStream.tla', 'RpcStreamTrace.tla']
INVS = ['ClientGetsPrefix', 'ServerGetsPrefix', 'NoLoss', 'NoLossToServer', 'StreamsStoppedAfterLoss']
PROPS = ['SiblingsUndisturbed']
LIVE = ['HandlersReturn', 'ClosedStreamUnblocks']
TRACE_INVS = ['ClientGetsPrefix', 'ServerGetsPrefix', 'NoLoss', 'NoLossToServer', 'Unblocked']
OWN = {'ClientGetsPrefix': 'C09', 'ServerGetsPrefix': 'C09', 'NoLoss': 'C09', 'NoLossToServer': 'C09',
       'StreamsStoppedAfterLoss': 'C10', 'SiblingsUndisturbed': 'C10', 'Unblocked': 'C10', 'HandlersReturn': 'C10', 'ClosedStreamUnblocks': 'C10'}
REJECT_OWNER = {'cli.read.ret': 'C09', 'h.read.ret': 'C09', 'c.dispatch': 'C09', 'v.dispatch': 'C09', 'w.frame': 'C09', 'h.start': 'C09',
                'api.established': 'C09', 'c.eofsweep': 'C10', 'v.eof': 'C10', 'v.done': 'C10', 'api.close': 'C10', 'api.close.ret': 'C10'}

def consts(streams=(1,), push=2, send=1, poll=False, cut=True, close=True, dev=(), bad=0):
    return {'Streams': set(streams), 'MaxPush': push, 'MaxSend': send, 'MaxBad': bad, 'Poll': poll, 'AllowCut': cut, 'AllowClose': close, 'Dev': set(dev)}

def model_check(tag, c, timeout=900, live=False):
    wd = scratch('smc_' + tag)
    cfg = cfg_text('LiveSpec', c, [], LIVE) if live else cfg_text('Spec', c, INVS, PROPS)
    res = run_tlc(wd, 'RpcStream.tla', cfg, ['RpcStream.tla'], timeout=timeout)
    res['tag'] = tag
    res['consts'] = {k: (sorted(v) if isinstance(v, (set, frozenset)) else v) for k, v in c.items()}
    shutil.rmtree(wd, ignore_errors=True)
    return res

def to_steps(acts):
    steps = []
    for name, args in acts:
        a = [argval(x) for x in args]
        if name in ('Open', 'Established', 'CliWrite', 'CliWriteFail', 'CliRead', 'CliClose', 'CloseSend', 'SrvAck', 'HandlerStart', 'Push', 'SrvRead', 'HandlerReturn'):
            steps.append({'a': name, 'c': a[0]})
        elif name in ('ReaderFrame', 'CliSweep', 'SrvFrame', 'SrvEOF', 'SrvTeardown', 'Cut'):
            steps.append({'a': name})
    return steps

def sched(name, c, acts, mode=None):
    cfg = {'Streams': sorted(c['Streams'])}
    cfg.update(mode or {})
    return {'name': name, 'cfg': cfg, 'steps': to_steps(acts)}

def deviation_schedule(tag, c, dev, mode=None):
    cc = dict(c); cc['Dev'] = set(dev)
    res = model_check('dev_' + tag, cc, timeout=300)
    acts = error_trace(res)
    if not res['violated'] or not acts:
        return None, res
    return sched('dev:' + tag, c, acts, mode), res

def sim_schedules(tag, c, num, depth, seed_, modes=({},)):
    wd = scratch('ssim_' + tag)
    behs, res = simulate(wd, 'RpcStream.tla', cfg_text('Spec', c, [], []), ['RpcStream.tla'], num, depth, seed_)
    shutil.rmtree(wd, ignore_errors=True)
    return [sched('sim:%s:%d' % (tag, i), c, b, modes[i % len(modes)]) for i, b in enumerate(behs)], res

def replay(schedules, tag):
    vh = build_harness()
    wd = scratch('srp_' + tag)
    json.dump(schedules, open(os.path.join(wd, 'sched.json'), 'w'))
    env = dict(os.environ, GOTRACEBACK='all')
    rc, o = sh([vh, 'sreplay', '-in', 'sched.json', '-out', 'trace.ndjson', '-res', 'res.json', '-par', '12'], cwd=wd, timeout=1200, env=env)
    crashes = []
    if rc != 0:
        if cf.is_lib_crash(o):
            i = o.find('panic:') if 'panic:' in o else o.find('fatal error:')
            return None, [{'panic': o[i:i + 2500]}]
        raise Machinery('stream replay failed (rc=%d):\n%s' % (rc, o[-3000:]))
    return (os.path.join(wd, 'trace.ndjson'), json.load(open(os.path.join(wd, 'res.json'))), schedules), crashes

def trace_cfg(maxs):
    c = consts(streams=range(1, maxs + 1), push=100000, send=100000, poll=False, bad=100000)
    return cfg_text('TrSpec', c, TRACE_INVS, PROPS, 'CONSTRAINT TrHigh\nPOSTCONDITION TrAccepted')

def validate(tracefile, tag, names, max_findings=5):
    traces = cf.split_traces(tracefile)
    idx = list(range(len(traces)))
    findings, accepted = [], 0
    stats = {'states': 0, 'distinct': 0, 'events': sum(len(t) for t in traces)}
    while idx and len(findings) < max_findings:
        wd = scratch('stv_' + tag)
        lines, starts = [], []
        for i in idx:
            starts.append(len(lines) + 1)
            lines.extend(traces[i])
        maxs = 1
        for ln in lines:
            maxs = max(maxs, json.loads(ln).get('s', 0))
        open(os.path.join(wd, 'trace.ndjson'), 'w').writelines(lines)
        res = run_tlc(wd, 'RpcStreamTrace.tla', trace_cfg(maxs), SPECS, workers=1, timeout=900, deque=True)
        stats['states'] += res['states']; stats['distinct'] += res['distinct']
        out = res['out']
        if res['complete'] and 'TRACE-REJECTED-AT' not in out:
            accepted += len(idx)
            shutil.rmtree(wd, ignore_errors=True)
            break
        pos = what = kind = None
        if res['violated']:
            what, kind = res['violated'][0], 'invariant'
            ls = re.findall(r'^/\\ l = (\d+)', out, re.M)
            pos = int(ls[-1]) - 1 if ls else None
        else:
            m = re.search(r'TRACE-REJECTED-AT", (\d+)', out)
            if m:
                pos, kind, what = int(m.group(1)), 'rejected', 'no action of the model explains the event'
        if pos is None:
            raise Machinery('stream trace validation produced no verdict:\n' + out[-3000:])
        k = max([j for j in range(len(idx)) if starts[j] <= pos] or [0])
        ti = idx[k]
        ev = json.loads(lines[pos - 1]) if 1 <= pos <= len(lines) else {}
        findings.append({'trace': ti, 'name': names[ti] if ti < len(names) else '?', 'kind': kind, 'what': what, 'event': ev,
                         'pos_in_trace': pos - starts[k] + 1, 'trace_events': [json.loads(x) for x in traces[ti]]})
        accepted += k
        idx = idx[k + 1:]
        shutil.rmtree(wd, ignore_errors=True)
    return accepted, findings, stats
