"""Lifecycle family (C20): model checking of spec/Lifecycle.tla, generation of behaviours with LifecycleGen, replay on real objects."""
import glob, json, os, re, shutil, subprocess
from vlib import *

SPECS = ['Lifecycle.tla', 'LifecycleGen.tla']
INVS = ['TypeOK', 'ConnReleased', 'TransportReleased', 'ClientReleased', 'ServerReleased', 'PeerGoneReleased', 'CloseReturns', 'NoPanic']
DEVS = {  # deviation -> (UseClient, invariant it must violate)
    'CloseRefusedAfterShutdown': (False, 'ConnReleased'), 'TransportKeepsTicker': (False, 'TransportReleased'), 'TransportSkipsIdle': (False, 'TransportReleased'),
    'ClientKeepsDetector': (True, 'ClientReleased'), 'ClientKeepsFallback': (True, 'ClientReleased'), 'ClientKeepsWaiters': (True, 'ClientReleased'),
    'ListenKeepsAccepted': (False, 'ServerReleased'), 'ServeSkipsStreamSweep': (False, 'PeerGoneReleased'), 'GetConnAfterClose': (True, 'TransportReleased'),
    'SecondCloseNil': (False, 'CloseReturns'), 'TransportCloseTwice': (False, 'NoPanic')}

def consts(dconns=('d1',), pconns=('p1', 'p2'), useclient=True, maxops=3, dev=(), settled=False, repeat=2):
    return {'DConns': set(dconns), 'PConns': set(pconns), 'UseClient': useclient, 'MaxRepeat': repeat, 'MaxOps': maxops, 'Dev': set(dev), 'SettledAPI': settled}

def model_check(wd, c, invariants=INVS, props=(), timeout=1500, workers=16):
    cfg = cfg_text('LiveSpec' if props else 'Spec', c, invariants, props)
    return run_tlc(wd, 'Lifecycle.tla', cfg, SPECS, workers=workers, timeout=timeout)

PJ_RE = re.compile(r'^/\\ pj = "(.*)"$', re.M)

def parse_pj(text):
    return [json.loads(m.group(1).encode().decode('unicode_escape')) for m in PJ_RE.finditer(text)]

def to_schedule(states, name, c):
    """states: list of {a, c, p} (first = init). API steps with the projection of the settled state that follows."""
    steps = []
    i = 1
    prev_hold = set(states[0]['p'].get('hold', []))
    while i < len(states):
        s = states[i]
        j = i
        while j + 1 < len(states) and states[j + 1]['a'] == 'internal':
            j += 1
        if s['a'] != 'internal':
            p = dict(states[j]['p'])
            hold = set(p.get('hold', []))
            arg = s['c']
            if s['a'] == 'TCall':
                new = sorted(set(states[i]['p'].get('hold', [])) - prev_hold)
                arg = new[0] if new else ''
            settled = p.pop('settled', True)
            p.pop('hold', None)
            steps.append({'a': s['a'], 'c': arg, 'p': p, '_settled': settled})
            prev_hold = hold
        i = j + 1
    if steps and not steps[-1]['_settled']:
        return None
    for st in steps:
        st.pop('_settled')
    last = steps[-1]['p'] if steps else {}
    terminal = bool(steps) and all(not last.get(k) for k in ('accept', 'pcs', 'pss', 'readers', 'serves', 'handlers', 'streamhandlers', 'trun', 'krun', 'fb', 'parked', 'probe')) \
        and not any(last['dcs'].values()) and not any(last['dss'].values())
    return {'name': name, 'useclient': bool(c['UseClient']), 'dconns': sorted(c['DConns']), 'steps': steps, 'terminal': terminal}

def generate(wd, c, minops, num, depth, sd, tag):
    """behaviours of LifecycleGen (SettledAPI) as replay schedules"""
    cc = dict(c); cc['SettledAPI'] = True; cc['MinOps'] = minops
    cfg = cfg_text('GSpec', cc, [], [])
    sub = os.path.join(wd, 'gen_' + tag)
    os.makedirs(sub, exist_ok=True)
    for s in SPECS:
        shutil.copy(os.path.join(SPEC, s), sub)
    open(os.path.join(sub, 'run.cfg'), 'w').write(cfg)
    rc, out = sh(['timeout', '300', 'tlc', '-workers', '1', '-metadir', os.path.join(sub, 'md'), '-config', 'run.cfg',
                  '-simulate', 'file=%s,num=%d' % (os.path.join(sub, 'sim'), num), '-depth', str(depth), '-seed', str(sd), 'LifecycleGen.tla'], cwd=sub,
                 env=dict(os.environ, JAVA_TOOL_OPTIONS='-Djava.io.tmpdir=' + sub))
    files = sorted(glob.glob(os.path.join(sub, 'sim_*')))
    if not files:
        raise Machinery('LifecycleGen produced no behaviours:\n' + out[-2000:])
    scheds, seen = [], set()
    for k, f in enumerate(files):
        sc = to_schedule(parse_pj(open(f).read()), '%s_%d' % (tag, k), cc)
        if sc is None or not sc['steps']:
            continue
        key = json.dumps([(s['a'], s['c']) for s in sc['steps']])
        if key in seen:
            continue
        seen.add(key)
        sc['srvdirect'] = (k % 2 == 1)       # half of the histories run against a direct-I/O server
        scheds.append(sc)
    shutil.rmtree(sub, ignore_errors=True)
    return scheds

def deviation_schedule(wd, dev, tag):
    """counterexample of the deviated model (SettledAPI, so it can be replayed) as a schedule whose expectations are those of
    the *intended* model: the API steps of the counterexample are re-run through the intended generator."""
    uc, inv = DEVS[dev]
    c = consts(useclient=uc, dev=(dev,), settled=True, maxops=3)
    res = run_tlc(wd, 'Lifecycle.tla', cfg_text('Spec', c, [inv], []), SPECS, workers=4, timeout=600)
    if inv not in res['violated']:
        return None, res
    acts = [(a, [x.strip('"') for x in args]) for a, args in error_trace(res)]
    return acts, res

def intended_expectations(wd, acts, uc, tag):
    """drive the intended model along a fixed list of user-level actions (internal steps in between) and return the schedule"""
    names = [a for a, _ in acts if a not in ('AcceptExit', 'CliReaderExit', 'SrvReaderEOF', 'SrvWaitDone', 'TRunExit', 'KRunExit', 'KFbExit', 'Init')]
    args = [(x[0] if x else '') for a, x in acts if a in names]
    c = consts(useclient=uc, settled=True, maxops=6)
    c['MinOps'] = 0
    script = ', '.join('<<"%s", "%s">>' % (n, x) for n, x in zip(names, args))
    mod = '''------------------------------ MODULE LifecycleScript ------------------------------
EXTENDS LifecycleGen, Sequences
VARIABLE k
Script == <<%s>>
Matches(name, arg) == k <= Len(Script) /\\ Script[k][1] = name /\\ ((Script[k][2] = arg) \\/ (name \\in {"TCall"}))
SNext == \\/ (k' = k /\\ Internal /\\ P("internal", ""))
         \\/ (k' = k + 1 /\\ (\\/ (Matches("SrvListen", "") /\\ SrvListen /\\ P("SrvListen", ""))
                          \\/ (Matches("SrvClose", "") /\\ SrvClose /\\ P("SrvClose", ""))
                          \\/ (Matches("TCall", "") /\\ TCall /\\ P("TCall", ""))
                          \\/ (Matches("TClose", "") /\\ TClose /\\ P("TClose", ""))
                          \\/ (Matches("KNew", "") /\\ KNew /\\ P("KNew", ""))
                          \\/ (Matches("KFallback", "") /\\ KFallback /\\ P("KFallback", ""))
                          \\/ (Matches("KPark", "") /\\ KPark /\\ P("KPark", ""))
                          \\/ (Matches("KClose", "") /\\ KClose /\\ P("KClose", ""))
                          \\/ (Matches("KProbeStart", "") /\\ KProbeStart /\\ P("KProbeStart", ""))
                          \\/ (Matches("KProbePing", "") /\\ KProbePing /\\ P("KProbePing", ""))
                          \\/ \\E c \\in Conns : \\/ (Matches("Dial", c) /\\ Dial(c) /\\ P("Dial", c))
                                              \\/ (Matches("StartCall", c) /\\ StartCall(c) /\\ P("StartCall", c))
                                              \\/ (Matches("OpenStream", c) /\\ OpenStream(c) /\\ P("OpenStream", c))
                                              \\/ (Matches("Release", c) /\\ Release(c) /\\ P("Release", c))
                                              \\/ (Matches("ConnClose", c) /\\ ConnClose(c) /\\ P("ConnClose", c))))
SSpec == GInit /\\ k = 1 /\\ [][SNext]_<<vars, pj, k>>
NotDone == ~(k > Len(Script) /\\ Settled)
================================================================================
''' % script
    res = run_tlc(wd, 'LifecycleScript.tla', cfg_text('SSpec', c, ['NotDone'], []), SPECS, workers=1, timeout=300,
                  files={'LifecycleScript.tla': mod})
    if 'NotDone' not in res['violated']:
        return None
    states = parse_pj_trace(res['out'])
    return to_schedule(states, tag, c)

def parse_pj_trace(out):
    """error trace printed by TLC: pj = "<json>" per state"""
    return [json.loads(m.group(1).encode().decode('unicode_escape')) for m in re.finditer(r'^/\\ pj = "(.*)"$', out, re.M)]

def replay(scheds, tag, shards=16, timeout=900, settle_ms=3000):
    vh = build_harness()
    wd = scratch('life_' + tag)
    for s in scheds:
        s['settle_ms'] = settle_ms
    procs = []
    groups = [scheds[i::shards] for i in range(shards)]
    for i, g in enumerate(groups):
        if not g:
            continue
        fin, fout = os.path.join(wd, 'in%d.json' % i), os.path.join(wd, 'out%d.json' % i)
        json.dump(g, open(fin, 'w'))
        env = dict(os.environ, GOTRACEBACK='all', VERIF_SOCKDIR=wd)
        p = subprocess.Popen([vh, 'lreplay', '-in', fin, '-out', fout], cwd=wd, env=env, stdout=subprocess.PIPE, stderr=subprocess.STDOUT, universal_newlines=True)
        procs.append((p, g, fout))
    results, crashes = [], []
    for p, g, fout in procs:
        try:
            o, _ = p.communicate(timeout=timeout)
        except subprocess.TimeoutExpired:
            p.kill(); o, _ = p.communicate()
            o += '\n[harness] lifecycle worker timed out'
        done = []
        if os.path.exists(fout):
            try: done = json.load(open(fout)) or []
            except ValueError: done = []
        results.extend(done)
        if p.returncode != 0:
            cur = g[len(done)] if len(done) < len(g) else None
            if 'panic:' in o or 'fatal error:' in o:
                i = o.find('panic:') if 'panic:' in o else o.find('fatal error:')
                crashes.append({'schedule': cur, 'panic': o[i:i + 3000]})
            else:
                raise Machinery('lifecycle worker failed (rc=%s):\n%s' % (p.returncode, o[-2500:]))
    shutil.rmtree(wd, ignore_errors=True)
    return results, crashes
