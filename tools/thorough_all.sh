#!/bin/bash
# runs every check's thorough tier once (debug mode: the committed evidence files stay those of the quick runs), keeps a copy of
# what each thorough run covered under /verif/evidence_thorough/
mkdir -p /verif/evidence_thorough
for p in "$@"; do
  s=$(date +%s)
  out=$(cd /verif && VERIF_NO_EVIDENCE=1 ./check $p --tier thorough 2>&1 | grep -E "VIOLATION|KNOWN|MACHINERY|held on|VIOLATED|^    C" | cut -c1-260)
  echo "$out"
  echo "   ($p thorough: $(( $(date +%s) - s )) s)"
  cp /verif/.work/evidence_debug/$p.json /verif/evidence_thorough/$p.json 2>/dev/null
done
