#!/bin/bash
# usage: process_mut.sh <round-dir> <suffix> <PID> [extra check ids...]   e.g. process_mut.sh /tmp/mut3 c C05
# confirms <round-dir>/<PID> in a scratch worktree, saves it as seeded/<PID><suffix>, runs the property's own check (+extras) against it
dir=$1; suf=$2; pid=$3; shift 3
name=${pid}${suf}
line=$(/verif/tools/confirm_seeded.sh $name $dir/$pid 2>&1 | tail -1)
echo "$line"
case "$line" in *"apply=ok build=ok suite=pass demo_with=fail demo_without=pass"*|*"apply=fuzz build=ok suite=pass demo_with=fail demo_without=pass"*) ;; *) echo "NOT CONFIRMED $name"; exit 1;; esac
python3 /verif/tools/save_seeded.py $pid $name $dir/$pid "$line"
cd /verif && ONLY=$name python3 tools/seeded_matrix.py ${1:+$name:$(echo "$@" | tr ' ' ',')} 2>&1 | tail -4
grep "^| $name " /verif/seeded/MATRIX.md | cut -c1-400
