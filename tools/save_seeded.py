#!/usr/bin/env python3
# usage: save_seeded.py <prop id> <name> <src dir> <confirm-log-line>   -> /verif/seeded/<name>/
import sys, os, json, shutil, re
pid, name, src, line = sys.argv[1:5]
dst = '/verif/seeded/' + name
os.makedirs(dst, exist_ok=True)
applied = '/tmp/confirm_%s.applied.diff' % name
shutil.copy(applied if os.path.exists(applied) else src + '/patch.diff', dst + '/patch.diff')
shutil.copy(src + '/zz_demo_test.go', dst + '/zz_demo_test.go')
if os.path.exists(src + '/NOTES.md'):
    shutil.copy(src + '/NOTES.md', dst + '/NOTES.md')
notes = open(src + '/NOTES.md').read() if os.path.exists(src + '/NOTES.md') else ''
needs = ''
m = re.search(r'(?is)(trigger\w*[^\n]*\n.*?)(\n#|\Z)', notes)
if m: needs = m.group(1).strip()[:1500]
meta = {"property": pid, "name": name,
        "origin": "fresh sub-agent given only the property text and a scratch worktree",
        "needs_to_manifest": needs,
        "confirmed": line,
        "confirmation_cmd": "tools/confirm_seeded.sh %s <dir>  (scratch worktree of /repo HEAD: apply, go build (+ -tags verif), full root-package suite under flock, TestDemo fails with the change, passes after git apply -R)" % name,
        "detected_by": []}
json.dump(meta, open(dst + '/meta.json', 'w'), indent=1)
print('saved', dst)
