#!/usr/bin/env python3
import sys, json
v=json.load(open(sys.argv[1]))
print(v['summary'])
if v.get('schedule'): print('cfg:', v['schedule']['cfg']); print('steps:', ' '.join('%s%s'%(s['a'], '(%s)'%s['c'] if 'c' in s else '') for s in v['schedule']['steps']))
pos=v['finding'].get('pos_in_trace')
for i,e in enumerate(v['trace'],1):
    mark='>>' if i==pos else '  '
    print(mark,i,e['ev'],'c=%d a=%d b=%d s=%d seq=%d sent=%d k=%s'%(e['c'],e['a'],e['b'],e['s'],e['seq'],e['sent'],e['k'][:12]))
