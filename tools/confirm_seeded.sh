#!/bin/bash
# usage: confirm_seeded.sh <name> <dir-with-patch.diff+zz_demo_test.go>
# Confirms in a scratch worktree of /repo HEAD: patch applies, builds, suite passes, demo fails with / passes without.
set -u
export GOFLAGS=-mod=mod GOPROXY=off GOSUMDB=off GOTOOLCHAIN=local
name=$1; src=$2
wt=/tmp/confirm_$name
git -C /repo worktree remove --force $wt >/dev/null 2>&1; rm -rf $wt
git -C /repo worktree add -q --detach $wt HEAD || exit 2
cd $wt
res="name=$name"
if git apply --check $src/patch.diff 2>/dev/null; then git apply $src/patch.diff; res="$res apply=ok"; 
elif patch -p1 --dry-run -F3 < $src/patch.diff >/dev/null 2>&1; then patch -p1 -F3 -s < $src/patch.diff; res="$res apply=fuzz"; 
else echo "$res apply=FAILED"; git -C /repo worktree remove --force $wt; exit 1; fi
git diff > $wt/.applied.diff
go build ./... && go build -tags verif ./... && res="$res build=ok" || res="$res build=FAILED"
s=$(flock /tmp/rpc-suite.lock go test -vet=off -count=1 -timeout 25m . 2>&1 | tail -1)
case "$s" in ok*) res="$res suite=pass";; *) res="$res suite=FAIL($s)";; esac
cp $src/zz_demo_test.go .
d=$(go test -vet=off -count=1 -timeout 5m -run 'TestDemo$' . 2>&1 | tail -1)
case "$d" in ok*) res="$res demo_with=PASS(unexpected)";; *) res="$res demo_with=fail";; esac
git apply -R $wt/.applied.diff
d=$(go test -vet=off -count=1 -timeout 5m -run 'TestDemo$' . 2>&1 | tail -1)
case "$d" in ok*) res="$res demo_without=pass";; *) res="$res demo_without=FAIL($d)";; esac
cp $wt/.applied.diff /tmp/confirm_$name.applied.diff
cd /; git -C /repo worktree remove --force $wt; rm -rf $wt
echo "$res"
