#!/usr/bin/env python3
"""Pipeline for the properties decided on Transport.tla (C13, C14, C15)."""
import json, os, re
from vlib import *
import connfam as cf

SPECS = ['Transport.tla', 'TransportTrace.tla']
INVS = ['PoolBound', 'IdleBound', 'OpenBound', 'NoDuplicates', 'PooledDisjoint', 'NoLeak', 'PooledRightAddress',
        'RecoveryBound', 'CloseClosesAll', 'ClosedAllShut']
PROPS = ['NoDeadHandout', 'SpareBusy', 'RightAddress', 'NoCollateralClose', 'AbandonedSpared']
TRACE_INVS = ['PoolBound', 'IdleBound', 'NoDuplicates', 'PooledDisjoint', 'PooledRightAddress', 'RecoveryBound',
              'NoWrongAddress', 'NoDeadHandoutTr', 'NoBusyClosed', 'AppendWithinLimit', 'CloseClosedAll', 'NoOtherError', 'NoDupExec', 'NoHealthyMarkedDead', 'NoDupSignal', 'NoRawRefusal']
OWN = {'PoolBound': 'C13', 'IdleBound': 'C13', 'OpenBound': 'C13', 'NoDuplicates': 'C13', 'PooledDisjoint': 'C13', 'NoLeak': 'C13',
       'AppendWithinLimit': 'C13',
       'PooledRightAddress': 'C14', 'RecoveryBound': 'C14', 'NoDeadHandout': 'C14', 'RightAddress': 'C14', 'NoWrongAddress': 'C14',
       'NoDeadHandoutTr': 'C14', 'NoOtherError': 'C14',
       'NoDupExec': 'C04', 'NoDupSignal': 'C02', 'NoRawRefusal': 'C14', 'NoHealthyMarkedDead': 'C19', 'NoCollateralClose': 'C19', 'SpareBusy': 'C15', 'AbandonedSpared': 'C15', 'CloseClosesAll': 'C15', 'ClosedAllShut': 'C15', 'NoBusyClosed': 'C15', 'CloseClosedAll': 'C15'}

def consts(addrs=('a',), ids=3, callers=(1, 2), maxconns=2, maxidle=1, ka=1, ito=2, maxclock=3, maxcalls=2, kills=1, dev=()):
    return {'Addrs': set(addrs), 'ConnIds': set(range(1, ids + 1)), 'Callers': set(callers), 'MaxConns': maxconns, 'MaxIdle': maxidle,
            'KeepAlive': ka, 'IdleTO': ito, 'MaxClock': maxclock, 'MaxCalls': maxcalls, 'MaxKills': kills, 'Dev': set(dev)}

def model_check(tag, c, timeout=900):
    wd = scratch('tmc_' + tag)
    res = run_tlc(wd, 'Transport.tla', cfg_text('Spec', c, INVS, PROPS), ['Transport.tla'], timeout=timeout)
    res['tag'] = tag
    res['consts'] = {k: (sorted(v, key=str) if isinstance(v, (set, frozenset)) else v) for k, v in c.items()}
    shutil.rmtree(wd, ignore_errors=True)
    return res

def to_steps(acts):
    steps = []
    for name, args in acts:
        a = [argval(x) for x in args]
        if name.startswith('Get'):
            steps.append({'a': 'Get', 'k': a[0], 'addr': a[1]})
        elif name in ('Register', 'Return'):
            steps.append({'a': name, 'k': a[0]})
        elif name in ('Tick', 'CloseIdle', 'Close', 'Advance'):
            steps.append({'a': name})
        elif name in ('Kill', 'Restart'):
            steps.append({'a': name, 'addr': a[0]})
        elif name == 'Drop':
            steps.append({'a': 'Drop', 'k': a[0]})
        elif name in ('Expire', 'LateAnswer'):
            steps.append({'a': name, 'k': a[0]})
            for st in reversed(steps[:-1]):      # the call this caller has in flight was made with CallWithContext
                if st['a'] == 'Get' and st['k'] == a[0]:
                    st['ctx'] = True
                    break
    return steps

FORMS = [['call'], ['call', 'go', 'rt'], ['stream', 'call'], ['rt'], ['go', 'stream']]

def sched(name, c, acts, forms=None, ioerr=False, closeerr=False):
    cfg = {'Addrs': sorted(c['Addrs']), 'MaxConns': c['MaxConns'], 'MaxIdle': c['MaxIdle'], 'KeepAlive': c['KeepAlive'],
           'IdleTO': c['IdleTO'], 'UnitMs': 50, 'Forms': forms or ['call'], 'IOErr': ioerr, 'CloseErr': closeerr}
    return {'name': name, 'cfg': cfg, 'steps': to_steps(acts)}

def deviation_schedule(tag, c, dev):
    cc = dict(c); cc['Dev'] = set(dev)
    res = model_check('dev_' + tag, cc, timeout=300)
    acts = error_trace(res)
    if not res['violated'] or not acts:
        return None, res
    return sched('dev:' + tag, c, acts), res

def sim_schedules(tag, c, num, depth, seed_):
    wd = scratch('tsim_' + tag)
    behs, res = simulate(wd, 'Transport.tla', cfg_text('Spec', c, [], []), ['Transport.tla'], num, depth, seed_)
    shutil.rmtree(wd, ignore_errors=True)
    return [sched('sim:%s:%d' % (tag, i), c, b, FORMS[i % len(FORMS)], ioerr=(i % 3 == 1), closeerr=(i % 4 == 2)) for i, b in enumerate(behs)], res

def group_key(cfg):
    return '%s_%d_%d' % ('-'.join(cfg['Addrs']), cfg['MaxConns'], cfg['MaxIdle'])

def replay(schedules, tag):
    vh = build_harness()
    groups = {}
    for s in schedules:
        groups.setdefault(group_key(s['cfg']), []).append(s)
    out, crashes = {}, []
    for gk, ss in groups.items():
        wd = scratch('trp_%s_%s' % (tag, gk))
        json.dump(ss, open(os.path.join(wd, 'sched.json'), 'w'))
        env = dict(os.environ, GOTRACEBACK='all')
        rc, o = sh([vh, 'treplay', '-in', 'sched.json', '-out', 'trace.ndjson', '-res', 'res.json', '-par', '10'], cwd=wd, timeout=1200, env=env)
        if rc != 0:
            if cf.is_lib_crash(o):
                i = o.find('panic:') if 'panic:' in o else o.find('fatal error:')
                crashes.append({'group': gk, 'panic': o[i:i + 2500]})
                continue
            raise Machinery('transport replay failed (rc=%d):\n%s' % (rc, o[-3000:]))
        out[gk] = (os.path.join(wd, 'trace.ndjson'), json.load(open(os.path.join(wd, 'res.json'))), ss)
    return out, crashes

def trace_cfg(cfg, maxid, callers):
    c = {'Addrs': set(cfg['Addrs']), 'ConnIds': set(range(1, maxid + 1)), 'Callers': set(callers), 'MaxConns': cfg['MaxConns'],
         'MaxIdle': cfg['MaxIdle'], 'KeepAlive': 1, 'IdleTO': 2, 'MaxClock': 1, 'MaxCalls': 1, 'MaxKills': 1, 'Dev': set()}
    return cfg_text('TrSpec', c, TRACE_INVS, [], 'CONSTRAINT TrHigh\nPOSTCONDITION TrAccepted')

def validate(tracefile, cfg, tag, names, max_findings=5):
    traces = cf.split_traces(tracefile)
    idx = list(range(len(traces)))
    findings, accepted = [], 0
    stats = {'states': 0, 'distinct': 0, 'events': sum(len(t) for t in traces)}
    while idx and len(findings) < max_findings:
        wd = scratch('ttv_' + tag)
        lines, starts = [], []
        for i in idx:
            starts.append(len(lines) + 1)
            lines.extend(traces[i])
        maxid, callers = 1, {1}
        for ln in lines:
            e = json.loads(ln)
            maxid = max(maxid, e.get('s', 0) if e['ev'].startswith(('t.', 'c.')) else 0)
            if e['ev'] in ('api.call', 'api.ret'):
                callers.add(e['c'])
        open(os.path.join(wd, 'trace.ndjson'), 'w').writelines(lines)
        res = run_tlc(wd, 'TransportTrace.tla', trace_cfg(cfg, maxid, callers), SPECS, workers=1, timeout=600, deque=True)
        stats['states'] += res['states']; stats['distinct'] += res['distinct']
        out = res['out']
        if res['complete'] and 'TRACE-REJECTED-AT' not in out:
            accepted += len(idx)
            shutil.rmtree(wd, ignore_errors=True)
            break
        pos = what = kind = None
        if res['violated']:
            what, kind = res['violated'][0], 'invariant'
            ls = re.findall(r'^/\\ l = (\d+)', out, re.M)
            pos = int(ls[-1]) - 1 if ls else None
        else:
            m = re.search(r'TRACE-REJECTED-AT", (\d+)', out)
            if m:
                pos, kind, what = int(m.group(1)), 'rejected', 'no action of the model explains the event'
        if pos is None:
            raise Machinery('transport trace validation produced no verdict:\n' + out[-3000:])
        k = max(j for j in range(len(idx)) if starts[j] <= pos)
        ti = idx[k]
        ev = json.loads(lines[pos - 1]) if 1 <= pos <= len(lines) else {}
        findings.append({'trace': ti, 'name': names[ti] if ti < len(names) else '?', 'kind': kind, 'what': what, 'event': ev,
                         'pos_in_trace': pos - starts[k] + 1, 'trace_events': [json.loads(x) for x in traces[ti]]})
        accepted += k
        idx = idx[k + 1:]
        shutil.rmtree(wd, ignore_errors=True)
    return accepted, findings, stats
