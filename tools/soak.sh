#!/bin/bash
# usage: soak.sh <seed>...   runs every quick check (model-checking step skipped, no evidence) with each seed; prints what is not "held"
for s in "$@"; do
  for p in C01 C02 C03 C04 C05 C06 C07 C08 C09 C10 C11 C12 C13 C14 C15 C16 C17 C18 C19 C20; do
    out=$(cd /verif && VERIF_SEED=$s VERIF_SKIP_MC=1 VERIF_NO_EVIDENCE=1 ./check $p --tier quick 2>&1 | grep -E "VIOLATION|KNOWN|MACHINERY|VIOLATED|^    C" | cut -c1-300)
    if [ -n "$out" ]; then echo "seed=$s $p"; echo "$out"; mkdir -p /verif/.work/soak_viol; cp /verif/.work/violations/${p}_1.json /verif/.work/soak_viol/${p}_seed${s}.json 2>/dev/null; fi
  done
  echo "seed $s done $(date +%H:%M)"
done
