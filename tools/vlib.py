#!/usr/bin/env python3
"""Shared machinery: TLC runs (model checking, simulation, trace validation),
parsing of TLC behaviours into schedules, harness builds, evidence files."""
import json, os, re, shutil, subprocess, sys, time, random, hashlib

VERIF = os.path.dirname(os.path.dirname(os.path.abspath(__file__)))
SPEC = os.path.join(VERIF, 'spec')
# (developer knobs, not used by any registered command: VERIF_WORK = another scratch root, VERIF_REPO = another checkout of
#  hslam/rpc - lets the seeded-change matrix run against a scratch worktree while /repo itself is being checked)
WORK = os.environ.get('VERIF_WORK') or os.path.join(VERIF, '.work')
REPO = os.environ.get('VERIF_REPO') or '/repo'
HARNESS = os.path.join(VERIF, 'harness')
EVID = os.path.join(VERIF, 'evidence')
GOENV = dict(os.environ, GOFLAGS='-mod=mod', GOPROXY='off', GOSUMDB='off', GOTOOLCHAIN='local',
             CGO_ENABLED='0')

class Machinery(Exception):
    """A problem of the machinery itself (exit 2, never a verdict)."""

def seed():
    try:
        return int(os.environ.get('VERIF_SEED', '1'))
    except ValueError:
        return 1

def scratch(name):
    d = os.path.join(WORK, name)
    shutil.rmtree(d, ignore_errors=True)
    os.makedirs(d)
    return d

def sh(cmd, cwd=None, env=None, timeout=None, check=False):
    p = subprocess.run(cmd, cwd=cwd, env=env, timeout=timeout, stdout=subprocess.PIPE,
                       stderr=subprocess.STDOUT, universal_newlines=True)
    if check and p.returncode != 0:
        raise Machinery('command failed: %s\n%s' % (' '.join(cmd), p.stdout[-4000:]))
    return p.returncode, p.stdout

# ------------------------------------------------------------------ harness
_built = {}

def build_harness():
    """Rebuild the Go harness against /repo's current working tree with hooks on."""
    out = os.path.join(WORK, 'vh')
    if _built.get('vh'):
        return out
    os.makedirs(WORK, exist_ok=True)
    hdir = HARNESS
    if REPO != '/repo':
        hdir = os.path.join(WORK, 'harness_src')
        shutil.rmtree(hdir, ignore_errors=True)
        shutil.copytree(HARNESS, hdir)
        gm = open(os.path.join(hdir, 'go.mod')).read().replace('=> /repo', '=> ' + REPO)
        open(os.path.join(hdir, 'go.mod'), 'w').write(gm)
    shutil.copy(os.path.join(REPO, 'go.sum'), os.path.join(hdir, 'go.sum'))
    rc, o = sh(['go', 'build', '-tags', 'verif', '-o', out, '.'], cwd=hdir, env=GOENV, timeout=600)
    if rc != 0:
        raise Machinery('harness does not build against /repo:\n' + o[-3000:])
    _built['vh'] = True
    return out

# ------------------------------------------------------------------ TLC
def cfg_text(spec='Spec', consts=None, invariants=(), properties=(), extra=''):
    lines = ['SPECIFICATION %s' % spec, 'CONSTANTS']
    for k, v in (consts or {}).items():
        lines.append('  %s = %s' % (k, tla(v)) if not (isinstance(v, str) and v.startswith('<-'))
                     else '  %s %s' % (k, v))
    if invariants:
        lines.append('INVARIANTS')
        lines.append('  ' + ' '.join(invariants))
    if properties:
        lines.append('PROPERTIES')
        lines.append('  ' + ' '.join(properties))
    lines.append('CHECK_DEADLOCK FALSE')
    if extra:
        lines.append(extra)
    return '\n'.join(lines) + '\n'

def tla(v):
    if isinstance(v, bool):
        return 'TRUE' if v else 'FALSE'
    if isinstance(v, int):
        return str(v)
    if isinstance(v, (set, frozenset, list, tuple)):
        return '{' + ', '.join(tla(x) for x in sorted(v, key=str)) + '}'
    if isinstance(v, str):
        if v.startswith('raw:'):
            return v[4:]
        return '"%s"' % v
    raise ValueError(v)

STAT_RE = re.compile(r'(\d+) states generated, (\d+) distinct states found, (\d+) states left on queue')
DEPTH_RE = re.compile(r'The depth of the complete state graph search is (\d+)')

def run_tlc(workdir, module, cfg, specs, workers=16, timeout=900, args=(), deque=False, files=None):
    """Run TLC in workdir (fresh copy of the spec modules). Returns dict."""
    for s in specs:
        shutil.copy(os.path.join(SPEC, s), workdir)
    for name, content in (files or {}).items():
        with open(os.path.join(workdir, name), 'w') as f:
            f.write(content)
    with open(os.path.join(workdir, 'run.cfg'), 'w') as f:
        f.write(cfg)
    env = dict(os.environ)
    jt = os.path.join(workdir, 'jtmp')          # TLC leaves one empty tlc-* directory per run in java.io.tmpdir: keep them out of /tmp
    os.makedirs(jt, exist_ok=True)
    env['JAVA_TOOL_OPTIONS'] = '-Djava.io.tmpdir=' + jt
    if deque:
        env['JAVA_TOOL_OPTIONS'] += ' -Dtlc2.tool.queue.IStateQueue=StateDeque'
    cmd = ['timeout', str(timeout), 'tlc', '-workers', str(workers), '-metadir', os.path.join(workdir, 'md'),
           '-config', 'run.cfg'] + list(args) + [module]
    t0 = time.time()
    rc, out = sh(cmd, cwd=workdir, env=env)
    res = {'rc': rc, 'out': out, 'wall': time.time() - t0, 'states': 0, 'distinct': 0, 'depth': 0}
    m = None
    for m in STAT_RE.finditer(out):
        pass
    if m:
        res['states'], res['distinct'], res['left'] = int(m.group(1)), int(m.group(2)), int(m.group(3))
    d = DEPTH_RE.search(out)
    if d:
        res['depth'] = int(d.group(1))
    res['complete'] = 'Model checking completed. No error has been found.' in out
    res['violated'] = re.findall(r'Error: (?:Invariant|Action property|Temporal property|Temporal properties) ?(\w*) (?:is|was|were) violated', out)
    res['timeout'] = (rc == 124)
    shutil.rmtree(os.path.join(workdir, 'md'), ignore_errors=True)
    shutil.rmtree(os.path.join(workdir, 'states'), ignore_errors=True)
    shutil.rmtree(jt, ignore_errors=True)
    return res

LABEL_RE = re.compile(r'^(?:State (\d+): |\\\* )<(\w+)(?:\(([^)]*)\))? line')

def parse_behaviour(text):
    """TLC behaviour (simulation file or error trace) -> list of (action, [args])."""
    acts = []
    for line in text.splitlines():
        m = LABEL_RE.match(line)
        if m:
            acts.append((m.group(2), split_args(m.group(3)) if m.group(3) else []))
    return acts

def split_args(s):
    """split a TLC label argument list at top-level commas (sets / tuples / records stay whole)"""
    out, depth, cur = [], 0, ''
    for ch in s:
        if ch in '{<[(':
            depth += 1
        elif ch in '}>])':
            depth -= 1
        if ch == ',' and depth == 0:
            out.append(cur.strip()); cur = ''
        else:
            cur += ch
    if cur.strip():
        out.append(cur.strip())
    return out

def setval(a):
    """{"a", "b"} -> ['a', 'b']"""
    return sorted(x.strip().strip('"') for x in a.strip('{}').split(',') if x.strip())

def argval(a):
    if a == 'TRUE':
        return True
    if a == 'FALSE':
        return False
    try:
        return int(a)
    except ValueError:
        return a.strip('"')

def simulate(workdir, module, cfg, specs, num, depth, seed_, timeout=300):
    """tlc -simulate: returns list of behaviours (lists of (action,args))."""
    beh_dir = os.path.join(workdir, 'beh')
    os.makedirs(beh_dir, exist_ok=True)
    res = run_tlc(workdir, module, cfg, specs, workers=1, timeout=timeout,
                  args=['-simulate', 'file=%s/b,num=%d' % (beh_dir, num), '-depth', str(depth), '-seed', str(seed_)])
    behs = []
    for fn in sorted(os.listdir(beh_dir)):
        with open(os.path.join(beh_dir, fn)) as f:
            acts = parse_behaviour(f.read())
        if acts:
            behs.append(acts)
    shutil.rmtree(beh_dir, ignore_errors=True)
    return behs, res

def error_trace(res):
    """Extract the counterexample behaviour of a failed model-checking run."""
    out = res['out']
    i = out.find('Error: The behavior up to this point is:')
    if i < 0:
        i = out.find('The following behavior constitutes a counter-example')
    if i < 0:
        return []
    return parse_behaviour(out[i:])

# ------------------------------------------------------------------ evidence
def write_evidence(pid, tier, level, coverage, wall, violations, assumptions=()):
    evid = EVID
    if os.environ.get('VERIF_SKIP_MC') or os.environ.get('VERIF_NO_EVIDENCE'):
        evid = os.path.join(WORK, 'evidence_debug')      # debugging runs never touch the real evidence
    os.makedirs(evid, exist_ok=True)
    ev = {'property_id': pid, 'tier': tier, 'seed': seed(), 'level': level, 'coverage': coverage,
          'assumptions': list(assumptions), 'wall_s': round(wall, 2), 'violations': violations}
    with open(os.path.join(evid, pid + '.json'), 'w') as f:
        json.dump(ev, f, indent=1)

def load_known():
    p = os.path.join(VERIF, 'known_findings.json')
    if not os.path.exists(p):
        return {'known': [], 'fixed': []}
    return json.load(open(p))
