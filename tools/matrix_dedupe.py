#!/usr/bin/env python3
"""seeded/MATRIX.md: keep the last row of each seeded change (rows appended by ONLY= runs replace older ones), sorted by name."""
p = '/verif/seeded/MATRIX.md'
L = open(p).read().splitlines()
head = [l for l in L if not l.startswith('| ') or l.startswith('| seeded change')]
head = [l for l in head if l.strip()][:3]
rows = {}
for l in L:
    if l.startswith('| ') and not l.startswith('| seeded change') and not l.startswith('|---'):
        rows[l.split('|')[1].strip()] = l
open(p, 'w').write('\n'.join([head[0], '', '| seeded change | targets | reported by | first line |', '|---|---|---|---|'] + [rows[k] for k in sorted(rows)]) + '\n')
print(len(rows), 'rows;', sum('NOT DETECTED' in r for r in rows.values()), 'not detected')
