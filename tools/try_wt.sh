#!/bin/bash
# usage: try_wt.sh <worktree> <seeded-name|-> <property>...   like try_seeded.sh but against a scratch worktree of /repo ("-": unchanged)
wt=$1; name=$2; shift 2
cd $wt || exit 2
git checkout -q -- . ; rm -f *.orig *.rej
if [ "$name" != "-" ]; then
  if git apply --check /verif/seeded/$name/patch.diff 2>/dev/null; then git apply /verif/seeded/$name/patch.diff; else patch -p1 -F3 -s < /verif/seeded/$name/patch.diff || { git checkout -- .; echo "patch does not apply"; exit 2; }; fi
fi
for p in "$@"; do
  echo "--- $name vs $p"
  (cd /verif && env VERIF_REPO=$wt VERIF_WORK=/verif/.work/w_$(basename $wt) VERIF_NO_EVIDENCE=1 ${SKIPMC:+VERIF_SKIP_MC=1} ./check $p --tier ${TIER:-quick} 2>&1 | grep -E "VIOLATION|held on|VIOLATED|MACHINERY|^    C" | cut -c1-300 | head -${LINES_MAX:-8})
done
git checkout -q -- . ; rm -f *.orig *.rej
