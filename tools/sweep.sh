#!/bin/bash
# usage: sweep.sh [seed]   every quick check, in order, evidence written; one line per property
s=${1:-1}
cd /verif || exit 2
for p in C01 C02 C03 C04 C05 C06 C07 C08 C09 C10 C11 C12 C13 C14 C15 C16 C17 C18 C19 C20; do
  t0=$(date +%s)
  VERIF_SEED=$s ./check $p --tier quick > .work/sweep_$p.log 2>&1
  rc=$?
  echo "$p rc=$rc $(( $(date +%s) - t0 ))s $(grep -E 'VIOLATION|KNOWN|MACHINERY' .work/sweep_$p.log | head -3 | cut -c1-200)"
done
echo "sweep seed $s done $(date -u +%H:%M)"
