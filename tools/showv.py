#!/usr/bin/env python3
import sys, json
v=json.load(open(sys.argv[1]))
print(v['summary'])
print('steps:', ' '.join('%s%s'%(s['a'], '(%s)'%s['c'] if 'c' in s else '') for s in v['schedule']['steps']))
pos=v['finding']['pos_in_trace']
for i,e in enumerate(v['trace'],1):
    mark='>>' if i==pos else '  '
    print(mark,i,e['ev'],'c=%d seq=%d a=%d b=%d k=%s sent=%d calls=%s s=%d'%(e['c'],e['seq'],e['a'],e['b'],e['k'][:30],e['sent'],e['calls'],e['s']))
