#!/bin/bash
# usage: process_mut2.sh <PID> [extra check ids...]   confirm /tmp/mut2/<PID>, save as seeded/<PID>b, run own check (+extras) against it
pid=$1; shift
name=${pid}b
line=$(/verif/tools/confirm_seeded.sh $name /tmp/mut2/$pid 2>&1 | tail -1)
echo "$line"
case "$line" in *"apply=ok build=ok suite=pass demo_with=fail demo_without=pass"*|*"apply=fuzz build=ok suite=pass demo_with=fail demo_without=pass"*) ;; *) echo "NOT CONFIRMED"; exit 1;; esac
python3 /verif/tools/save_seeded.py $pid $name /tmp/mut2/$pid "$line"
cd /verif && ONLY=$name python3 tools/seeded_matrix.py ${1:+$name:$(echo "$@" | tr ' ' ',')} 2>&1 | tail -4
grep "^| $name " /verif/seeded/MATRIX.md | cut -c1-400
