#!/usr/bin/env python3
"""Per-property checks. Each returns the process exit code (0 held / 1 violation / 2 machinery)."""
import json, os, sys, time
from vlib import *
import connfam as cf

REGISTRY = {}

def finish(pid, tier, level, coverage, t0, violations, known_hits, assumptions):
    """Print verdict lines, write evidence, return exit code."""
    os.makedirs(os.path.join(WORK, 'violations'), exist_ok=True)
    known = load_known()
    nviol = 0
    for i, v in enumerate(violations):
        sig = v.get('signature', '')
        hit = [k for k in known.get('known', []) if k['property'] in (pid, v.get('property')) and k['signature'] == sig]
        if hit:
            known_hits.append('KNOWN-FINDING: property=%s %s' % (pid, hit[0]['what']))
            continue
        nviol += 1
        path = os.path.join(WORK, 'violations', '%s_%d.json' % (pid, nviol))
        with open(path, 'w') as f:
            json.dump(v, f, indent=1, default=str)
        print('VIOLATION property=%s replay=%s' % (pid, path))
        print('   ', v.get('summary', sig))
    for k in sorted(set(known_hits)):
        print(k)
    coverage['known_findings_hit'] = sorted(set(known_hits))
    write_evidence(pid, tier, level, coverage, time.time() - t0, nviol, assumptions)
    print('%s %s: %s (%.1fs)' % (pid, tier, 'VIOLATED' if nviol else 'held on everything explored', time.time() - t0))
    return 1 if nviol else 0

# ---------------------------------------------------------------------------
# RpcConn family
M = cf.modes
C = cf.consts
FAULT_SIMS = [('np', C({1, 2, 3}, M(), wfail=1, mfail=1, cut=1, loss=1, close=2, dup=1, unk=1)),
              ('pp', C({1, 2, 3}, M(cp=True, sp=True), wfail=1, mfail=1, cut=1, loss=1, close=2, dup=1, unk=1)),
              ('dd', C({1, 2, 3}, M(cd=True, sd=True), wfail=1, mfail=1, cut=1, loss=1, close=2, dup=1, unk=1)),
              ('n5', C({1, 2, 3, 5, 6}, M(), wfail=2, mfail=1, cut=1, loss=2, close=2, dup=2, unk=1))]
HAPPY_SIMS = [('np', C({1, 2, 3, 5, 6}, M(), dup=2, unk=1)),
              ('pp', C({1, 2, 3, 5, 6}, M(cp=True, sp=True), dup=1, unk=1)),
              ('pd', C({1, 2, 3, 5, 6}, M(cp=True, sp=True, cd=True, sd=True), dup=1)),
              ('sp', C({1, 2, 3, 5, 6}, M(sp=True), dup=1)),
              ('dd', C({1, 2, 3, 5, 6}, M(cd=True, sd=True), dup=1, unk=1))]
def mixed_c01(tier):
    out = []
    for rep in range(1 if tier == 'quick' else 5):
        for net, extra in (('unix', {}), ('frag', {'frag': 9}), ('unix', {'srvpipe': True}), ('unix', {'clidirect': True}), ('unix', {'srvdirect': True}),
                           ('frag', {'poll': True, 'readers': 2, 'frag': 30})):
            out.append(dict({'network': net, 'streams': 3 + rep % 3, 'pushfirst': 1, 'msgs': 4, 'unary': 8, 'end': 'close', 'after': 8}, **extra))
    return out

def st_c19(tier, sd):
    out = []
    for net, codec, hdr, extra in (('unix', 'alias', '', {}), ('inproc', 'code', 'code', {}), ('tcp', 'pb', '', {}), ('frag', 'alias', '', {'frag': 11}),
                                   ('unix', 'alias', '', {'clidirect': True}), ('unix', 'alias', '', {'clipipe': True, 'srvpipe': True})):
        c = {'network': net, 'codec': codec, 'header': hdr, 'conns': 2, 'callers': 3, 'calls': 80 if tier == 'quick' else 400, 'sizes': [0, 1, 16, 17, 49, 64, 600, 1000, 5000],
             'failevery': 7, 'retain': True, 'forms': 'ctx,ctx,call', 'bufsize': 0}
        c.update(extra)
        out.append(c)
    return out

def mixed_c04(tier):
    out = mixed_c01(tier)[:3]
    for net, extra in (('unix', {}), ('unix', {'srvpipe': True}), ('frag', {'frag': 200}), ('frag', {'poll': True, 'readers': 2, 'frag': 200})):
        out.append(dict({'network': net, 'streams': 1, 'msgs': 2, 'end': 'close', 'burstclose': 100, 'after': 6}, **extra))
    return out

def st_c04(tier, sd):
    cfgs = st_c01(tier, sd)
    return cfgs[:8] if tier == 'quick' else cfgs

def st_c01(tier, sd):
    big = tier == 'thorough'
    n = 400 if big else 120
    sizes = [0, 0, 1, 19, 20, 127, 128, 511, 512, 513, 5000, 65535, 65536, 65537, 70000] + ([300000] if big else [])
    out = []
    for net, codec, hdr in [('unix', 'pb', ''), ('frag', 'alias', ''), ('inproc', 'code', 'code'), ('tcp', 'json', 'json'),
                            ('frag', 'pb', 'pb'), ('unix', 'alias', 'code'), ('frag', 'msgp', 'json'), ('inproc', 'pb', '')]:
        for mode in ({}, {'srvpipe': True}, {'clidirect': True, 'srvdirect': True}, {'poll': True, 'readers': 2}):
            if mode.get('poll') and net not in ('frag',):
                continue
            c = {'network': net, 'codec': codec, 'header': hdr, 'conns': 3, 'callers': 4, 'calls': n, 'sizes': sizes,
                 'failevery': 9, 'missevery': 11, 'cached': 8, 'frag': (9 if not big else 1021) if net == 'frag' else 0, 'bufsize': [0, 512, 70000][len(out) % 3], 'forms': 'call,call,go,ctx,rt'}
            c.update(mode)
            out.append(c)
    return out

def st_c06(tier, sd):
    # failing calls every other call, error texts with lengths around every varint boundary, under each header encoder
    n = 600 if tier == 'thorough' else 150
    out = []
    for net, codec, hdr in [('unix', 'pb', 'code'), ('inproc', 'json', 'json'), ('frag', 'code', 'code'), ('unix', 'msgp', 'pb'), ('tcp', 'pb', ''), ('frag', 'alias', 'code')]:
        for mode in ({}, {'srvpipe': True, 'clipipe': True}):
            c = {'network': net, 'codec': codec, 'header': hdr, 'conns': 2, 'callers': 1 if mode else 3, 'calls': n, 'sizes': [20, 40, 128, 3000],
                 'failevery': 2, 'missevery': 7, 'frag': 13 if net == 'frag' else 0, 'forms': 'go' if mode else 'call,go,ctx,rt'}
            c.update(mode)
            out.append(c)
    return out

def st_c05(tier, sd):
    n = 1500 if tier == 'thorough' else 300
    out = []
    for net, codec in [('unix', 'pb'), ('frag', 'alias'), ('inproc', 'json'), ('frag', 'pb')]:
        for mode in ({}, {'srvdirect': True}, {'clidirect': True}, {'poll': True, 'readers': 3}, {'poll': True, 'srvdirect': True, 'readers': 2}):
            if mode.get('poll') and net != 'frag':
                continue
            c = {'network': net, 'codec': codec, 'conns': 3, 'callers': 1, 'calls': n, 'srvpipe': True, 'clipipe': True,
                 'sizes': [0, 0, 20, 40, 128, 3000, 70000], 'failevery': 3, 'missevery': 6, 'frag': 11 if net == 'frag' else 0, 'forms': 'go', 'delayus': 200}
            c.update(mode)
            out.append(c)
    # server pipelining only (several callers): one handler at a time per connection
    for net in ('unix', 'frag'):
        out.append({'network': net, 'codec': 'pb', 'conns': 2, 'callers': 4, 'calls': n // 2, 'srvpipe': True, 'sizes': [0, 20, 600],
                    'failevery': 4, 'missevery': 6, 'frag': 7 if net == 'frag' else 0, 'delayus': 100, 'poll': net == 'frag', 'readers': 3})
    return out

CONN_PLANS = {
    # per property: model instances, deviations whose counterexamples become directed schedules,
    # simulation instances (the same constants drive TLC's random behaviours)
    'C01': {
        'own': 'C01',
        'models': {'quick': [('u3dup', C({1, 2, 3}, M(), dup=1, unk=1)),
                             ('u3dupP', C({1, 2, 3}, M(cp=True, sp=True), dup=1, unk=1))],
                   # (4 calls without pipelining do not finish: > 300 s at 16 workers even without faults - measured; 4 calls are
                   #  explored in the pipelined modes, 3 calls with more faults elsewhere)
                   'thorough': [('u3dup2', C({1, 2, 3}, M(), dup=2, unk=1)),
                                ('u3dupD', C({1, 2, 3}, M(cd=True, sd=True), dup=2, unk=1)),
                                ('u3dupS', C({1, 2, 6}, M(sp=True), dup=2, unk=1)),
                                ('u4dupP', C({1, 2, 5, 6}, M(cp=True, sp=True), dup=2, unk=1))]},
        'devs': [('wrongseq', ['EchoWrongSeq'], C({1, 2, 3}, M())),
                 ('seqreuse', ['SeqReuse'], C({1, 2, 3}, M())),
                 ('seqreuseP', ['SeqReuse'], C({1, 2, 3}, M(cp=True, sp=True))),
                 ('recycle', ['AbandonRecycles'], C({1, 4, 5}, M(), ctx=None)),
                 ('recycleD', ['AbandonRecycles'], C({4, 5, 9}, M(cd=True, sd=True), ctx=None))],
        'sims': HAPPY_SIMS + [('ctx', C({1, 2, 4, 5, 8}, M(), dup=1, ctx=None))],
        'pads': [0, 1, 24, 127, 128, 600, 70000],
        'stress': st_c01,
        'mixed': mixed_c01,
    },
    'C02': {
        'own': 'C02',
        'models': {'quick': [('u3f', C({1, 2, 3}, M(), wfail=1, cut=1, loss=1, close=1))],
                   # (all six fault classes at once do not finish in 600 s; two instances of five: 15 M and 24 M states, ~3.5 min each)
                   'thorough': [('u3fd', C({1, 2, 3}, M(), wfail=1, cut=1, loss=1, close=1, dup=1)),
                                ('u3fu', C({1, 2, 3}, M(), wfail=1, cut=1, loss=1, close=1, unk=1)),
                                ('u3p', C({1, 2, 3}, M(cp=True, sp=True), wfail=1, cut=1, loss=1, close=1, dup=1)),
                                ('u3d', C({1, 2, 3}, M(cd=True, sd=True), wfail=1, cut=1, loss=1, close=1, dup=1))]},
        'devs': [('sweepkeep', ['SweepKeepsEntries', 'WriteFailAlwaysCompletes'], C({1, 2, 3}, M(), wfail=1, cut=1, close=1)),
                 ('sweepkeepP', ['SweepKeepsEntries', 'WriteFailAlwaysCompletes'], C({1, 2, 3}, M(cp=True, sp=True), wfail=1, cut=1, close=1)),
                 ('dispkeep', ['DispatchKeepsEntry'], C({1, 2, 3}, M(), cut=1, dup=1)),
                 ('rmfin_dup', ['RemoveAtFinish'], C({1, 2, 3}, M(), dup=1)),
                 ('rmfin_eof', ['RemoveAtFinish'], C({1, 2, 3}, M(), cut=1)),
                 ('rmfin_dupP', ['RemoveAtFinish'], C({1, 2, 5}, M(cp=True, sp=True), dup=1)),
                 ('sweepskip', ['SweepSkips'], C({1, 2, 3}, M(), cut=1))],
        'sims': FAULT_SIMS,
        'also_transport': 'C14',
        'also_client': True,
    },
    'C03': {
        'own': 'C03',
        'models': {'quick': [('u3c', C({1, 2, 3}, M(), cut=1, loss=1, close=1)),
                             ('u3cP', C({1, 2}, M(cp=True, sp=True), cut=1, loss=1, close=1, wfail=1))],
                   'thorough': [('u3f', C({1, 2, 3}, M(), wfail=1, cut=1, loss=2, close=2)),
                                ('u3p', C({1, 2, 3}, M(cp=True, sp=True), wfail=1, cut=1, loss=1, close=1)),
                                ('u3d', C({1, 2, 3}, M(cd=True, sd=True), wfail=1, cut=1, loss=1, close=1))]},
        'live': {'quick': [('l2', C({1, 3}, M(), cut=1, loss=1, close=1, wfail=1))],
                 'thorough': [('l3', C({1, 2, 3}, M(), cut=1, loss=1, close=1)),
                              ('l2p', C({1, 3}, M(cp=True, sp=True), cut=1, loss=1, close=1, wfail=1))]},
        'devs': [('nodrain', ['SweepBeforeDrain'], C({1, 2, 3}, M(), cut=1)),
                 ('norefuse', ['NoRefuseAfterShutdown'], C({1, 2, 3}, M(), cut=1, close=1)),
                 ('sweepskip', ['SweepSkips'], C({1, 2, 3}, M(), cut=1))],
        'sims': FAULT_SIMS,
        'also_stream': 'C10',
    },
    'C04': {
        'own': 'C04',
        'models': {'quick': [('u3', C({1, 2, 3}, M(), dup=1, cut=1, loss=1)),
                             ('u3sp', C({1, 2, 3}, M(sp=True, sd=True), dup=1, cut=1, loss=1))],
                   'thorough': [('u3', C({1, 2, 3}, M(), dup=1, cut=1, loss=2)),
                                ('u3sp', C({1, 2, 6}, M(sp=True), dup=1, cut=1, loss=2)),
                                ('u3sd', C({1, 2, 3}, M(sd=True), dup=1, cut=1, loss=2)),
                                ('u4pp', C({1, 2, 3, 5}, M(cp=True, sp=True), dup=1, cut=1, loss=1))]},
        'devs': [('dupexec', ['DupExec'], C({1, 2, 3}, M())),
                 ('pinghandler', ['PingRunsHandler'], C({1, 2, 3}, M())),
                 ('dupexecP', ['DupExec'], C({1, 2, 3}, M(sp=True)))],
        'sims': HAPPY_SIMS + FAULT_SIMS[:2],
        'stress': st_c04,
        'mixed': mixed_c04,
        'also_transport': 'C14',
    },
    'C05': {
        'own': 'C05',
        'models': {'quick': [('pp', C({1, 2, 3}, M(cp=True, sp=True))),
                             ('ppf', C({1, 2, 6}, M(cp=True, sp=True), dup=1)),
                             ('sp', C({1, 2, 3}, M(sp=True)))],
                   'thorough': [('pp4', C({1, 2, 5, 6}, M(cp=True, sp=True), dup=1, cut=1)),
                                ('pd4', C({1, 2, 5, 6}, M(cp=True, sp=True, cd=True, sd=True), dup=1)),
                                ('pp3f', C({1, 2, 3}, M(cp=True, sp=True), dup=1, unk=1, cut=1, loss=1, wfail=1, close=1))]},
        'devs': [('errinline', ['ErrorInline'], C({1, 2, 10}, M(cp=True, sp=True))),
                 ('lookupinline', ['LookupFailInline'], C({1, 2, 6}, M(cp=True, sp=True))),
                 ('unordfin', ['UnorderedFinish'], C({1, 2, 5}, M(cp=True, sp=True))),
                 ('unordexec', ['UnorderedExec'], C({1, 2, 5}, M(cp=True, sp=True))),
                 ('eofqueued', ['EofRunsQueued'], C({1, 2, 5}, M(cp=True, sp=True), cut=1)),
                 ('eofqueuedD', ['EofRunsQueued'], C({1, 2, 5}, M(sp=True, sd=True), cut=1))],
        'sims': [('pp', C({1, 2, 5, 6, 9, 10}, M(cp=True, sp=True), dup=1)),
                 ('pd', C({1, 2, 5, 6, 9, 10}, M(cp=True, sp=True, cd=True, sd=True))),
                 ('ps', C({1, 2, 5, 6, 9, 10}, M(cp=True, sp=True, sd=True))),
                 ('pc', C({1, 2, 5, 6, 9, 10}, M(cp=True, sp=True, cd=True))),
                 ('pp3', C({1, 2, 3, 6}, M(cp=True, sp=True), cut=1, wfail=1))],
        'stress': st_c05,
    },
    'C06': {
        'own': 'C06',
        'mixed': mixed_c01,
        'stress': st_c06,
        'models': {'quick': [('u3e', C({1, 2, 6}, M(), mfail=1, dup=1)),
                             ('u3eP', C({1, 2, 6}, M(cp=True, sp=True), mfail=1))],
                   'thorough': [('u3e', C({1, 2, 6}, M(), mfail=1, dup=1, unk=1)),
                                ('u4eP', C({1, 2, 5, 6}, M(cp=True, sp=True), mfail=1, dup=1)),
                                ('u3eD', C({1, 2, 6}, M(cd=True, sd=True), mfail=1, dup=1, unk=1))]},
        'devs': [('wrongseq', ['EchoWrongSeq'], C({1, 2, 6}, M()))],
        'sims': [('np', C({1, 2, 5, 6, 10}, M(), mfail=2, dup=1, unk=1)),
                 ('pp', C({1, 2, 5, 6, 10}, M(cp=True, sp=True), mfail=2, dup=1)),
                 ('dd', C({1, 2, 5, 6, 10}, M(cd=True, sd=True), mfail=2, dup=1))],
    },
    'C19': {
        'own': 'C19',
        'models': {'quick': [('x3', C({1, 4, 8}, M(), dup=1, ctx=None)),
                             ('x3c', C({1, 4}, M(), cut=1, close=1, ctx=None))],
                   'thorough': [('x3d', C({1, 4, 8}, M(), dup=1, cut=1, ctx=None)),
                                ('x3w', C({1, 2, 4}, M(cd=True, sd=True), dup=1, cut=1, close=1, ctx=None)),
                                ('x4P', C({1, 2, 4, 8}, M(cp=True, sp=True), dup=1, ctx=None))]},
        'devs': [],
        'sims': [('np', C({1, 2, 4, 8}, M(), dup=1, ctx=None)),
                 ('pp', C({1, 2, 4, 8}, M(cp=True, sp=True), dup=1, ctx=None)),
                 ('dd', C({1, 2, 4, 8}, M(cd=True, sd=True), cut=1, ctx=None))],
        'stress': st_c19,
        'also_transport': 'C14',
        'also_client': 'C19',
    },
}

# Client-layer plans used by checks of other families (defined here, resolved at run time: KC is defined further down)
def _cli_layer_plans():
    k2 = dict(upd=(('a', 'b'),), maxupd=0, fb=0, ctxcalls=True)
    k3 = dict(addrs=ABC, upd=(('a', 'b', 'c'),), init=('a', 'b', 'c'), maxupd=0, fb=0, ctxcalls=True)
    cyc = lambda n: _cycle(1, n)
    ctxend = [{'a': 'Route', 'k': 1}, {'a': 'CtxEnd', 'k': 1}, {'a': 'Again', 'k': 1}]
    warm = [{'a': 'Detect'}] + [{'a': 'ProbeDone', 'addr': x, 'g': 0} for x in 'abc']
    return {
        # C19 at the Client: CallWithContext over 1..3 live targets and every policy; the caller's context ends while the call is
        # with the RoundTripper (which, like a Transport, gives the call up): the call returns at once with the context's error,
        # nobody else is affected, the target is not taken for unreachable
        'C19': {'models': {'quick': [('x2', KC(flips=1, calls=3, callers=(1, 2), **k2))],
                           'thorough': [('x3', KC(flips=1, calls=4, callers=(1, 2), **k3)),
                                        ('x2l', KC(policy='lt', flips=1, calls=4, callers=(1, 2), lats=(10, 30), **k2))]},
                'devs': [('ctxdead', ['CtxMarksDead'], KC(flips=0, calls=3, callers=(1,), **k3))],
                'sims': [('x3', KC(flips=2, calls=10, callers=(1, 2), **k3)),
                         ('x2', KC(flips=2, calls=10, callers=(1, 2, 3), **k2)),
                         ('x3l', KC(policy='lt', flips=1, calls=10, callers=(1, 2), lats=(10, 30), **k3))],
                'scripts': [('ctxend3', KC(flips=0, calls=3, callers=(1,), **k3), warm + cyc(1) + ctxend + cyc(1) + ctxend + ctxend + cyc(2), ('ctx',)),
                            ('ctxend1', KC(addrs=ABC, upd=(('a',),), init=('a',), maxupd=0, fb=0, ctxcalls=True, flips=0, calls=3, callers=(1,)),
                             [{'a': 'Detect'}, {'a': 'ProbeDone', 'addr': 'a', 'g': 0}] + cyc(1) + ctxend + cyc(1), ('ctx',))],
                'forms': ('ctx',)},
    }
CLI_LAYER_PLANS = {}

def conn_check(pid, tier, replay_file=None):
    if not CLI_LAYER_PLANS:
        CLI_LAYER_PLANS.update(_cli_layer_plans())
    t0 = time.time()
    plan = CONN_PLANS[pid]
    sd = seed()
    notes, assumptions = [], [
        'the in-memory socket.Messages pair of the harness stands for the network (frame granularity)',
        'hooks compiled in with -tags verif report the library\'s own linearisation points; wire and API events are the harness\'s',
        'bounded waits (hang bound 3 s) decide "never completes"; a suspected hang is re-run alone before it counts',
    ]
    violations, known_hits = [], []
    cov = {'model_runs': [], 'deviation_runs': [], 'states': 0, 'transitions': 0, 'traces_validated_against_impl': 0,
           'samples': [], 'schedules_replayed': 0, 'trace_events': 0, 'divergence_notes': 0}
    schedules = []
    phase = {}
    tp = time.time()
    def lap(name):
        nonlocal tp
        phase[name] = round(phase.get(name, 0) + time.time() - tp, 1)
        tp = time.time()
    if replay_file:
        v = json.load(open(replay_file))
        schedules = [v['schedule']]
    else:
        # 1. exhaustive model checking of the intended design
        for tag, c in ([] if os.environ.get('VERIF_SKIP_MC') else plan['models'].get(tier, plan['models']['quick'])):
            res = cf.model_check('%s_%s' % (pid, tag), c, timeout=3000 if tier == 'thorough' else 600)
            cov['model_runs'].append({'instance': tag, 'constants': res['consts'], 'distinct_states': res['distinct'],
                                      'states_generated': res['states'], 'depth': res['depth'], 'complete': res['complete'],
                                      'wall_s': round(res['wall'], 1)})
            cov['states'] += res['distinct']; cov['transitions'] += res['states']
            if res['violated']:
                raise Machinery('the intended design (Dev = {}) violates %s in instance %s: the specification is wrong or '
                                'over-strict; fix the model before trusting any verdict\n%s' % (res['violated'], tag, res['out'][-2500:]))
            if not res['complete']:
                raise Machinery('model checking of %s did not complete (timeout=%s)' % (tag, res['timeout']))
        lap('model_check')
        # 2. directed schedules: counterexamples of deviated models
        for tag, dev, c in plan['devs']:
            s, res = cf.deviation_schedule('%s_%s' % (pid, tag), c, dev)
            cov['deviation_runs'].append({'deviation': dev, 'instance': tag, 'violated_in_model': res['violated'],
                                          'states_generated': res['states'], 'schedule_len': len(s['steps']) if s else 0})
            if s is None:
                raise Machinery('deviation %s produced no counterexample: the model is insensitive to it (vacuity)' % dev)
            schedules.append(s)
        lap('deviations')
        # 3. random behaviours of the intended design
        nsim = 60 if tier == 'quick' else 600
        for j, (tag, c) in enumerate(plan['sims']):
            ss, res = cf.sim_schedules('%s_%s' % (pid, tag), c, nsim, 60, sd * 1000 + j)
            schedules.extend(ss)
    lap('simulate')
    # 4. replay on the real code
    names_by_mode = {}
    rp, crashes = cf.replay(schedules, pid)
    lap('replay')
    for cr in crashes:
        first = cr['panic'].splitlines()[0] if cr['panic'] else 'crash'
        summary = 'C08: the process crashed inside hslam/rpc while replaying %s (mode %s, %d/3 isolated re-runs crash): %s' % (
            cr['schedule']['name'] if cr['schedule'] else '?', cr['mode'], cr['crashes_in_3_isolated_runs'], first)
        # a crash of the process takes every outstanding call with it: it is held against the property
        # whose schedules provoked it (and against C08 by C08's own check)
        violations.append({'property': plan['own'], 'signature': 'crash:' + first[:80], 'summary': summary,
                           'schedule': cr['schedule'], 'finding': {'kind': 'crash', 'panic': cr['panic']}, 'trace': []})
    cov['worker_crashes'] = len(crashes)
    for mk, (tracefile, results, ss) in sorted(rp.items()):
        cov['schedules_replayed'] += len(ss)
        cov['divergence_notes'] += sum(len(r.get('notes') or []) for r in results)
        names = [s['name'] for s in ss]
        # 5. trace validation
        accepted, findings, stats = cf.validate(tracefile, mk, pid, names)
        cov['traces_validated_against_impl'] += accepted
        cov['trace_events'] += stats['events']
        cov.setdefault('trace_validation_states', 0)
        cov['trace_validation_states'] += stats['distinct']
        for f in findings:
            owner = cf.owner_of(f)
            sch = ss[f['trace']] if f['trace'] < len(ss) else None
            sig = cf.signature(f)
            summary = '%s: %s at event %s (trace %s, mode %s)' % (owner, f['what'], json.dumps({k: f['event'].get(k) for k in ('ev', 'c', 'seq', 'a', 'b', 'k', 'sent', 'calls')}), f['name'], mk)
            # Every conn-family check drives the same specification; a state the implementation reached that
            # the specification forbids is reported by whichever check observed it (the summary names the
            # property that owns the violated invariant).
            if owner != plan['own']:
                summary = '[invariant owned by %s] ' % owner + summary
            violations.append({'property': owner, 'signature': sig, 'summary': summary, 'schedule': sch,
                               'finding': {k: f[k] for k in ('kind', 'what', 'event', 'pos_in_trace', 'mode', 'name')},
                               'trace': f['trace_events']})
        if len(cov['samples']) < 3 and ss:
            tr = cf.split_traces(tracefile)
            cov['samples'].append({'schedule': ss[0]['name'], 'steps': ss[0]['steps'][:40],
                                   'trace_excerpt': [json.loads(x) for x in tr[0][:25]] if tr else []})
    lap('validate')
    # 6. workload engine on the real transports (API-level oracle: the expected transcript of the model)
    if plan.get('stress') and not replay_file:
        cfgs = []
        for j, c in enumerate(plan['stress'](tier, sd)):
            c = dict(c); c.setdefault('seed', sd * 100 + j); c.setdefault('name', '%s-st%d' % (pid, j))
            cfgs.append(c)
        results, scr = cf.run_stress(cfgs, pid)
        cov['stress_configs'] = len(results)
        cov['stress_calls'] = sum(r.get('calls', 0) for r in results)
        cov['stress_skipped'] = [r['name'] + ': ' + r['skipped'] for r in results if r.get('skipped')]
        for r in results:
            for fl in (r.get('failures') or [])[:3]:
                cfg = [c for c in cfgs if c['name'] == r['name']]
                violations.append({'property': plan['own'], 'signature': 'stress:' + ' '.join(fl.split()[1:6]),
                                   'summary': '%s: workload %s: %s' % (plan['own'], r['name'], fl), 'stress_config': cfg[0] if cfg else None,
                                   'schedule': None, 'finding': {'kind': 'stress', 'failure': fl}, 'trace': []})
        for cr in scr:
            first = cr['panic'].splitlines()[0] if cr['panic'] else 'crash'
            violations.append({'property': plan['own'], 'signature': 'crash:' + first[:80],
                               'summary': '%s: the process crashed inside hslam/rpc under workload %s: %s' % (plan['own'], (cr['config'] or {}).get('name'), first),
                               'stress_config': cr['config'], 'schedule': None, 'finding': {'kind': 'crash', 'panic': cr['panic']}, 'trace': []})
        if len(cov['samples']) < 4 and cfgs:
            cov['samples'].append({'stress_config': cfgs[0], 'result': {k: v for k, v in (results[0] if results else {}).items() if k != 'failures'}})
        lap('stress')
    if plan.get('mixed') and not replay_file:
        # unary calls and pings sharing a connection with streams, and using it after the streams were closed (objects the stream
        # operations recycled must not leak into ordinary calls)
        scs = []
        for j, sc in enumerate(plan['mixed'](tier)):
            sc = dict(sc); sc.setdefault('seed', seed() * 100 + j); sc.setdefault('name', '%s-mx%d' % (pid, j))
            scs.append(sc)
        results, scr = cf.run_stress(scs, pid + 'm', cmd='sstress')
        cov['mixed_scenarios'] = len(results)
        cov['mixed_calls'] = sum(r.get('calls', 0) for r in results)
        for r in results:
            for fl in (r.get('failures') or [])[:3]:
                cfg = [x for x in scs if x['name'] == r['name']]
                violations.append({'property': pid, 'signature': 'mixed:' + ' '.join(fl.split()[:6]), 'summary': '%s: calls sharing a connection with streams (scenario %s): %s' % (pid, r['name'], fl),
                                   'stress_config': cfg[0] if cfg else None, 'schedule': None, 'finding': {'kind': 'scenario', 'failure': fl}, 'trace': []})
        for cr in scr:
            first = cr['panic'].splitlines()[0] if cr['panic'] else 'crash'
            violations.append({'property': pid, 'signature': 'crash:' + first[:80], 'summary': '%s: the process crashed inside hslam/rpc in scenario %s: %s' % (pid, (cr['config'] or {}).get('name'), first),
                               'stress_config': cr['config'], 'schedule': None, 'finding': {'kind': 'crash', 'panic': cr['panic']}, 'trace': []})
        lap('mixed')
    if plan.get('also_stream') and not replay_file:
        # outstanding stream calls (open / close of a stream) at the moment the connection ends: schedules of RpcStream.tla
        sv, scov, sass = stream_core(pid, STREAM_PLANS[plan['also_stream']], tier, None, models=False)
        violations.extend(sv)
        cov['stream_layer'] = {k: scov[k] for k in ('schedules_replayed', 'traces_validated_against_impl', 'trace_events')}
        cov['traces_validated_against_impl'] += scov['traces_validated_against_impl']
        lap('stream_layer')
    if plan.get('also_client') and not replay_file:
        # the same property at the Client layer: every call form (Go with a nil done channel included) over every routing outcome
        # (routed, parked and woken, timed out, failed over, closed); a caller still blocked at the end of a run is reported
        light = {'models': {}, 'devs': [], 'forms': ('go', 'gonil', 'rt', 'call', 'ctx', 'ping', 'stream'),
                 'sims': [('w', KC(upd=(('a', 'b'), ('b',)), maxupd=1, flips=3, calls=8, fb=2, callers=(1, 2, 3))),
                          ('w3', KC(addrs=ABC, upd=(('a', 'b', 'c'),), init=('a', 'b', 'c'), maxupd=0, flips=4, calls=8, fb=1, callers=(1, 2)))]}
        own_models = isinstance(plan['also_client'], str)
        if own_models:
            light = CLI_LAYER_PLANS[plan['also_client']]
        kv, kcov, kass = cli_core(pid, light, tier, None, models=own_models, nsim_quick=14)
        if own_models:
            cov['model_runs'] = cov.get('model_runs', []) + kcov['model_runs']
            cov['deviation_runs'] = cov.get('deviation_runs', []) + kcov['deviation_runs']
            cov['states'] = cov.get('states', 0) + kcov['states']; cov['transitions'] = cov.get('transitions', 0) + kcov['transitions']
        violations.extend(kv)
        cov['client_layer'] = {k: kcov[k] for k in ('schedules_replayed', 'traces_validated_against_impl', 'trace_events')}
        cov['traces_validated_against_impl'] += kcov['traces_validated_against_impl']
        lap('client_layer')
    if plan.get('also_transport') and not replay_file:
        # the same property one layer up: schedules of Transport.tla with kills/restarts (no retry, no duplicate execution)
        tv, tcov, tass = trans_core(pid, TRANS_PLANS[plan['also_transport']], tier, None, models=False)
        violations.extend(tv)
        cov['transport_layer'] = {k: tcov[k] for k in ('schedules_replayed', 'traces_validated_against_impl', 'trace_events')}
        cov['traces_validated_against_impl'] += tcov['traces_validated_against_impl']
        lap('transport_layer')
    cov['phase_wall_s'] = phase
    print('phases:', phase)
    for n in notes[:20]:
        print('note:', n)
    cov['notes'] = notes[:50]
    cov['rule'] = ('states/transitions: TLC exhaustive runs of RpcConn (Dev={}); traces: executions of the real code '
                   'driven by TLC behaviours (simulation + deviation counterexamples), each accepted by RpcConnTrace with all invariants checked in every state')
    return finish(pid, tier, 'model_checking', cov, t0, violations, known_hits, assumptions)

for _p in CONN_PLANS:
    REGISTRY[_p] = conn_check


# ---------------------------------------------------------------------------
# Transport family (C13 C14 C15)
import transfam as tf
TC = tf.consts
TRANS_PLANS = {
    'C13': {
        'own': 'C13',
        'models': {'quick': [('t1', TC(ids=3, callers=(1, 2), maxclock=2, maxcalls=2, kills=1))],
                   'thorough': [('t1', TC(ids=3, callers=(1, 2), maxclock=4, maxcalls=2, kills=1)),
                                ('t2', TC(addrs=('a', 'b'), ids=3, callers=(1, 2), maxclock=2, maxcalls=2, kills=1)),
                                ('t3', TC(ids=4, callers=(1, 2, 3), maxconns=2, maxidle=2, maxclock=2, maxcalls=1, kills=0))]},
        'devs': [('diallimit', ['DialNoLimit'], TC(ids=3, maxclock=2)),
                 ('enqlimit', ['EnqueueNoLimit'], TC(ids=3, maxclock=3)),
                 ('overflow', ['OverflowNotClosed'], TC(ids=3, maxclock=3))],
        'sims': [('s1', TC(ids=6, callers=(1, 2, 3), maxclock=6, maxcalls=4, kills=2)),
                 ('s2', TC(addrs=('a', 'b'), ids=6, callers=(1, 2), maxclock=6, maxcalls=4, kills=2)),
                 ('s3', TC(ids=6, callers=(1, 2, 3), maxconns=3, maxidle=2, maxclock=6, maxcalls=4, kills=1)),
                 ('s4', TC(ids=6, callers=(1, 2), maxconns=1, maxidle=1, maxclock=6, maxcalls=5, kills=2))],
        'bursts': True,
    },
    'C14': {
        'own': 'C14',
        'models': {'quick': [('t1', TC(ids=3, callers=(1, 2), maxclock=2, maxcalls=2, kills=1))],
                   'thorough': [('t1', TC(ids=4, callers=(1,), maxclock=4, maxcalls=5, kills=2)),
                                ('t2', TC(addrs=('a', 'b'), ids=3, callers=(1, 2), maxclock=2, maxcalls=2, kills=1))]},
        'devs': [('deadidle', ['NoAliveCheckOnIdle'], TC(ids=3, maxclock=3)),
                 ('wrongaddr', ['WrongAddress'], TC(addrs=('a', 'b'), ids=3, maxclock=3)),
                 ('nomark', ['NoMarkDead'], TC(ids=3, callers=(1,), maxclock=1, maxcalls=6, kills=1)),
                 ('appendidle', ['AppendIdleNoCheck'], TC(ids=4, callers=(1, 2), maxclock=3, maxcalls=4, kills=1)),
                 ('deadline', ['DeadlineMarksDead'], TC(ids=2, callers=(1, 2), maxconns=1, maxidle=1, maxclock=1, maxcalls=3, kills=0)),
                 ('appendidle2', ['AppendIdleNoCheck', 'RetireDropsDead'], TC(ids=4, callers=(1, 2), maxclock=3, maxcalls=4, kills=1)),
                 ('rrnocheck', ['RoundRobinNoCheck'], TC(ids=3, callers=(1, 2), maxclock=1, maxcalls=3, kills=1)),
                 ('replacedead', ['ReplaceKeepsDead'], TC(ids=4, callers=(1, 2), maxclock=3, maxcalls=4, kills=1))],
        'sims': [('s1', TC(ids=6, callers=(1, 2), maxclock=6, maxcalls=5, kills=2)),
                 ('s2', TC(addrs=('a', 'b'), ids=6, callers=(1, 2), maxclock=6, maxcalls=4, kills=2)),
                 ('s4', TC(ids=6, callers=(1,), maxconns=1, maxidle=1, maxclock=6, maxcalls=6, kills=2)),
                 ('s5', TC(ids=6, callers=(1,), maxconns=2, maxidle=2, ka=1, ito=3, maxclock=8, maxcalls=6, kills=2))],
    },
    'C15': {
        'own': 'C15',
        'models': {'quick': [('t1', TC(ids=3, callers=(1, 2), maxclock=3, maxcalls=2, kills=0))],
                   'thorough': [('t1', TC(ids=3, callers=(1, 2), maxclock=4, maxcalls=2, kills=1)),
                                ('t3', TC(ids=3, callers=(1, 2), maxconns=2, maxidle=2, ka=1, ito=1, maxclock=4, maxcalls=2, kills=0))]},
        'devs': [('idlebusy', ['IdleCloseIgnoresBusy'], TC(ids=3, maxclock=4, kills=0)),
                 ('expirerear', ['ExpireChecksRear'], TC(ids=3, callers=(1, 2), maxconns=2, maxidle=2, maxclock=5, maxcalls=3, kills=0)),
                 ('retirebusy', ['RetireBusy'], TC(ids=3, maxclock=3, kills=0)),
                 ('closeidlebusy', ['CloseIdleBusy'], TC(ids=3, maxclock=2, kills=0)),
                 ('closehalf', ['CloseHalfIdle'], TC(ids=3, callers=(1, 2), maxconns=2, maxidle=2, maxclock=3, maxcalls=2, kills=0)),
                 ('abandonfree', ['AbandonFreesConn'], TC(ids=2, callers=(1, 2), maxconns=1, maxidle=1, maxclock=3, maxcalls=2, kills=0))],
        'sims': [('s1', TC(ids=6, callers=(1, 2, 3), maxclock=8, maxcalls=4, kills=0)),
                 ('s3', TC(ids=6, callers=(1, 2), maxconns=2, maxidle=2, ka=1, ito=1, maxclock=8, maxcalls=4, kills=1)),
                 ('s4', TC(ids=6, callers=(1, 2), maxconns=1, maxidle=1, maxclock=8, maxcalls=5, kills=0))],
    },
}

# C20 one layer down: what Transport.Close must find and close - connections retired to the idle queue (0..MaxIdle of them) and
# connections that did not fit into it (closed at the overflow, never dropped)
TRANS_PLANS['C20'] = {
    'own': 'C20', 'models': {},
    'devs': [('closehalf', ['CloseHalfIdle'], TC(ids=3, callers=(1, 2), maxconns=2, maxidle=2, maxclock=3, maxcalls=2, kills=0)),
             ('overflow', ['OverflowNotClosed'], TC(ids=3, maxclock=3)),
             ('overflow3', ['OverflowNotClosed'], TC(ids=3, callers=(1, 2, 3), maxconns=3, maxidle=1, maxclock=3, maxcalls=1, kills=0))],
    'sims': [('s1', TC(ids=6, callers=(1, 2, 3), maxclock=8, maxcalls=4, kills=0)),
             ('s3', TC(ids=6, callers=(1, 2), maxconns=2, maxidle=2, ka=1, ito=1, maxclock=8, maxcalls=4, kills=1)),
             ('s5', TC(ids=6, callers=(1, 2, 3), maxconns=3, maxidle=1, ka=1, ito=3, maxclock=8, maxcalls=3, kills=0))],
}

def trans_check(pid, tier, replay_file=None):
    t0 = time.time()
    violations, cov, assumptions = trans_core(pid, TRANS_PLANS[pid], tier, replay_file)
    return finish(pid, tier, 'model_checking', cov, t0, violations, [], assumptions)

def poolstruct_step(pid, tier, cov, violations):
    """spec/PoolStruct.tla: the pointer-level idle queue and connection list refine the sequences Transport.tla uses (exhaustive),
    two deviations must break the refinement (vacuity), and every written-out history is stepped through the real connQueue / conns."""
    INV = ['QueueRefines', 'ResultsRefine', 'ListRefines', 'RoundRobin', 'Emit']
    runs = [('queue', 2, 6), ('conns', 3, 7)] if tier == 'quick' else [('queue', 2, 7), ('queue', 3, 7), ('queue', 1, 6), ('conns', 3, 7), ('conns', 2, 8)]
    cov.setdefault('poolstruct', [])
    for mode, cap, depth in runs:
        c = {'Cap': cap, 'Vals': {1, 2, 3}, 'Depth': depth, 'Mode': mode, 'Deviation': 'none'}
        wd = scratch('ps_%s_%s' % (pid, mode))
        res = run_tlc(wd, 'PoolStruct.tla', cfg_text('Spec', c, INV), ['PoolStruct.tla'], workers=8, timeout=1200)
        if res['violated'] or not res['complete']:
            raise Machinery('PoolStruct (%s): %s\n%s' % (mode, res['violated'] or 'incomplete', res['out'][-1500:]))
        outf = os.path.join(wd, 'tlc.out')
        open(outf, 'w').write(res['out'])
        resf = os.path.join(wd, 'res.json')
        rc, out = sh([build_harness(), 'poolstruct', '-in', outf, '-cap', str(cap), '-out', resf], timeout=600)
        if rc != 0 or not os.path.exists(resf):
            raise Machinery('poolstruct driver failed: ' + out[-800:])
        r = json.load(open(resf))
        if r['histories'] == 0:
            raise Machinery('PoolStruct (%s) wrote no histories' % mode)
        cov['poolstruct'].append({'mode': mode, 'Cap': cap, 'Depth': depth, 'distinct_states': res['distinct'], 'histories_replayed': r['histories'],
                                  'steps': r['steps'], 'ops': r['ops']})
        cov['states'] += res['distinct']; cov['transitions'] += res['states']
        for msg in (r['failures'] or [])[:3]:
            violations.append({'property': pid, 'signature': 'poolstruct:%s:%s' % (mode, msg.split(':')[0].split(' ')[-1] if ':' in msg else 'x'),
                               'summary': '%s: the pool\'s %s departs from the sequence the Transport specification means: %s' % (pid, 'idle queue' if mode == 'queue' else 'connection list', msg[:600]),
                               'schedule': None, 'finding': {'kind': 'poolstruct', 'detail': msg}, 'trace': []})
        shutil.rmtree(wd, ignore_errors=True)
    for dev in ('AlwaysRelinkFront', 'DequeueKeepsLength'):
        c = {'Cap': 2, 'Vals': {1, 2, 3}, 'Depth': 6, 'Mode': 'queue', 'Deviation': dev}
        wd = scratch('ps_%s_%s' % (pid, dev))
        res = run_tlc(wd, 'PoolStruct.tla', cfg_text('Spec', c, INV[:4]), ['PoolStruct.tla'], workers=4, timeout=300)
        shutil.rmtree(wd, ignore_errors=True)
        if not res['violated']:
            raise Machinery('PoolStruct deviation %s does not break the refinement (vacuity)' % dev)
        cov['deviation_runs'].append({'deviation': ['PoolStruct:' + dev], 'violated_in_model': res['violated'], 'states_generated': res['states'], 'schedule_len': 0})

def trans_core(pid, plan, tier, replay_file=None, models=True):
    sd = seed()
    assumptions = ['servers are in-process (one rpc.Server per address) reached through Transport.Dial over the harness\'s in-memory wire',
                   'pool decisions are stamped under connsMu by the add-only hooks; time advances in real units of 6 ms with KeepAlive/IdleConnTimeout set half a unit above the model value',
                   'callers use the synchronous Call (reading R3); a caller holding a connection it has not registered on yet is not protected from housekeeping (reading R4)']
    violations, known_hits, notes = [], [], []
    cov = {'model_runs': [], 'deviation_runs': [], 'states': 0, 'transitions': 0, 'traces_validated_against_impl': 0, 'samples': [],
           'schedules_replayed': 0, 'trace_events': 0}
    schedules = []
    if replay_file:
        schedules = [json.load(open(replay_file))['schedule']]
    else:
        for tag, c in ([] if (os.environ.get('VERIF_SKIP_MC') or not models) else plan['models'].get(tier, plan['models']['quick'])):
            res = tf.model_check('%s_%s' % (pid, tag), c, timeout=3000 if tier == 'thorough' else 600)
            cov['model_runs'].append({'instance': tag, 'constants': res['consts'], 'distinct_states': res['distinct'],
                                      'states_generated': res['states'], 'depth': res['depth'], 'complete': res['complete'], 'wall_s': round(res['wall'], 1)})
            cov['states'] += res['distinct']; cov['transitions'] += res['states']
            if res['violated']:
                raise Machinery('the intended Transport design (Dev = {}) violates %s in instance %s\n%s' % (res['violated'], tag, res['out'][-2500:]))
            if not res['complete']:
                raise Machinery('model checking of %s did not complete' % tag)
        for tag, dev, c in plan['devs']:
            s, res = tf.deviation_schedule('%s_%s' % (pid, tag), c, dev)
            cov['deviation_runs'].append({'deviation': dev, 'violated_in_model': res['violated'], 'states_generated': res['states'],
                                          'schedule_len': len(s['steps']) if s else 0})
            if s is None:
                raise Machinery('deviation %s produced no counterexample (vacuity)' % dev)
            schedules.append(s)
        nsim = 40 if tier == 'quick' else 400
        for j, (tag, c) in enumerate(plan['sims']):
            ss, res = tf.sim_schedules('%s_%s' % (pid, tag), c, nsim, 45, sd * 1000 + j)
            schedules.extend(ss)
        # a pooled connection that ends with a read error other than EOF (no call in flight / a call in flight), then calls again:
        # behaviours of the model (Get Register Return Drop Get ...) run with the non-EOF flavour of Drop
        G = lambda k: [{'a': 'Get', 'k': k, 'addr': 'a'}, {'a': 'Register', 'k': k}]
        R = lambda k: [{'a': 'Return', 'k': k}]
        icfg = {'Addrs': ['a'], 'MaxConns': 1, 'MaxIdle': 1, 'KeepAlive': 1, 'IdleTO': 2, 'UnitMs': 50, 'IOErr': True, 'Forms': ['call']}
        schedules.append({'name': 'ioerr:idle', 'cfg': icfg, 'steps': G(1) + R(1) + [{'a': 'Drop', 'k': 1}] + G(1) + R(1) + G(1) + R(1) + G(1) + R(1)})
        schedules.append({'name': 'ioerr:inflight', 'cfg': icfg, 'steps': G(1) + [{'a': 'Drop', 'k': 1}] + R(1) + G(1) + R(1) + G(1) + R(1) + G(1) + R(1)})
        scfg = {'Addrs': ['a'], 'MaxConns': 1, 'MaxIdle': 1, 'KeepAlive': 1, 'IdleTO': 2, 'UnitMs': 50, 'Forms': ['call', 'stream', 'call', 'call']}
        schedules.append({'name': 'stream:deadconn', 'cfg': scfg, 'steps': G(1) + R(1) + [{'a': 'Kill', 'addr': 'a'}, {'a': 'Restart', 'addr': 'a'}] + G(1) + R(1) + G(1) + R(1) + G(1) + R(1)})
        # connections whose Close reports an error once the peer is gone (TLS cannot send its close_notify): the server goes
        # away under a pooled connection and comes back; the failed call must still retire the connection
        ccfg = {'Addrs': ['a'], 'MaxConns': 1, 'MaxIdle': 1, 'KeepAlive': 1, 'IdleTO': 2, 'UnitMs': 50, 'CloseErr': True, 'Forms': ['call']}
        schedules.append({'name': 'closeerr:kill', 'cfg': ccfg, 'steps': G(1) + R(1) + [{'a': 'Kill', 'addr': 'a'}] + G(1) + R(1) + [{'a': 'Restart', 'addr': 'a'}] + G(1) + R(1) + G(1) + R(1) + G(1) + R(1)})
        schedules.append({'name': 'closeerr:drop', 'cfg': dict(ccfg, Forms=['call', 'stream', 'call']), 'steps': G(1) + R(1) + [{'a': 'Drop', 'k': 1}] + G(1) + R(1) + G(1) + R(1) + G(1) + R(1)})
        # a connection that housekeeping parked in the idle queue is taken back by a call and ends under that call (the server
        # stays up): the call fails once - no second hand-out, no second dial, no second execution inside the same API call
        rcfg = {'Addrs': ['a'], 'MaxConns': 1, 'MaxIdle': 1, 'KeepAlive': 1, 'IdleTO': 4, 'UnitMs': 50, 'Forms': ['call']}
        park = [{'a': 'Advance'}, {'a': 'Advance'}, {'a': 'Tick'}]
        schedules.append({'name': 'reuse:drop', 'cfg': rcfg, 'steps': G(1) + R(1) + park + G(1) + [{'a': 'Drop', 'k': 1}] + R(1) + G(1) + R(1) + G(1) + R(1)})
        schedules.append({'name': 'reuse:dropidle', 'cfg': dict(rcfg, Forms=['call', 'call', 'rt', 'go']), 'steps': G(1) + R(1) + park + [{'a': 'Drop', 'k': 1}] + G(1) + R(1) + G(1) + R(1) + G(1) + R(1)})
        schedules.append({'name': 'reuse:kill', 'cfg': rcfg, 'steps': G(1) + R(1) + park + G(1) + [{'a': 'Kill', 'addr': 'a'}] + R(1) + [{'a': 'Restart', 'addr': 'a'}] + G(1) + R(1) + G(1) + R(1)})
        if plan.get('bursts'):
            # concurrent callers racing for the pool (no gates): limits and their normalisation
            for j, (mc, mi, raw) in enumerate([(2, 1, None), (1, 1, (0, 0)), (1, 1, (-1, 5)), (2, 2, (2, 5)), (3, 2, None), (1, 1, None), (3, 1, (3, -1)), (2, 1, (2, -3)),
                                          (1, 1, (0, 1)), (1, 1, (0, 2)), (1, 1, (0, 5)), (1, 1, (-1, 1)), (1, 1, (-3, 2))]):   # every order of the two normalisations
                cfg = {'Addrs': ['a'], 'MaxConns': mc, 'MaxIdle': mi, 'KeepAlive': 1, 'IdleTO': 2, 'UnitMs': 6}
                if raw:
                    cfg.update({'UseRaw': True, 'RawMaxConns': raw[0], 'RawMaxIdle': raw[1]})
                for rep in range(3 if tier == 'quick' else 12):
                    steps = [{'a': 'Get', 'k': 1, 'addr': 'a'}, {'a': 'Register', 'k': 1}, {'a': 'Return', 'k': 1},
                             {'a': 'Burst', 'k': 6 + rep, 'addr': 'a'}, {'a': 'Advance'}, {'a': 'Advance'}, {'a': 'Tick'},
                             {'a': 'Burst', 'k': 5, 'addr': 'a'}, {'a': 'Advance'}, {'a': 'Advance'}, {'a': 'Advance'}, {'a': 'Tick'}, {'a': 'Tick'},
                             {'a': 'Burst', 'k': 4, 'addr': 'a'}]
                    schedules.append({'name': 'burst:%d:%d' % (j, rep), 'cfg': cfg, 'steps': steps})
    if not replay_file and models and pid in ('C13', 'C15') and not os.environ.get('VERIF_SKIP_MC'):
        poolstruct_step(pid, tier, cov, violations)
    rp, crashes = tf.replay(schedules, pid)
    for cr in crashes:
        first = cr['panic'].splitlines()[0] if cr['panic'] else 'crash'
        violations.append({'property': pid, 'signature': 'crash:' + first[:80], 'summary': '%s: the process crashed inside hslam/rpc: %s' % (pid, first),
                           'schedule': None, 'finding': {'kind': 'crash', 'panic': cr['panic']}, 'trace': []})
    for gk, (tracefile, results, ss) in sorted(rp.items()):
        cov['schedules_replayed'] += len(ss)
        accepted, findings, stats = tf.validate(tracefile, ss[0]['cfg'], pid, [s['name'] for s in ss])
        cov['traces_validated_against_impl'] += accepted
        cov['trace_events'] += stats['events']
        for f in findings:
            owner = tf.OWN.get(f['what'], pid) if f['kind'] == 'invariant' else pid
            sig = '%s:%s@%s' % (f['kind'], f['what'] if f['kind'] == 'invariant' else 'rejected', f['event'].get('ev', ''))
            summary = '%s%s: %s at event %s (trace %s)' % ('' if owner == pid else '[invariant owned by %s] ' % owner, owner, f['what'],
                                                          json.dumps({k: f['event'].get(k) for k in ('ev', 'c', 'a', 'b', 's')}), f['name'])
            sch = ss[f['trace']] if f['trace'] < len(ss) else None
            violations.append({'property': owner, 'signature': sig, 'summary': summary, 'schedule': sch,
                               'finding': {k: f[k] for k in ('kind', 'what', 'event', 'pos_in_trace', 'name')}, 'trace': f['trace_events']})
        if len(cov['samples']) < 3 and ss:
            tr = cf.split_traces(tracefile)
            cov['samples'].append({'schedule': ss[0]['name'], 'steps': ss[0]['steps'][:40], 'trace_excerpt': [json.loads(x) for x in tr[0][:25]] if tr else []})
    cov['rule'] = ('states/transitions: exhaustive TLC runs of Transport.tla (Dev={}); traces: executions of the real rpc.Transport driven by TLC '
                   'behaviours (simulation + deviation counterexamples + concurrent bursts), each accepted by TransportTrace with the pool invariants checked in every state')
    return violations, cov, assumptions

for _p in TRANS_PLANS:
    REGISTRY[_p] = trans_check


# ---------------------------------------------------------------------------
# Client family (C16 C17 C18)
import clifam as kf
KC = kf.consts
ABC = ('a', 'b', 'c')
def _cycle(k, n):
    out = []
    for _ in range(n):
        out += [{'a': 'Route', 'k': k}, {'a': 'CallDone', 'k': k}, {'a': 'Again', 'k': k}]
    return out

def _dead_script(ncalls):
    # three live targets, b goes away, ncalls calls in rotation (every target is reached whatever the list order; with 3 + p calls the
    # rotation stands at position p when the list shrinks), a probe finds b still away, two more calls
    return ([{'a': 'Detect'}] + [{'a': 'ProbeDone', 'addr': x, 'g': 0} for x in 'abc'] + [{'a': 'Flip', 'addr': 'b'}] + _cycle(1, ncalls) +
            [{'a': 'Detect'}, {'a': 'ProbeDone', 'addr': 'b', 'g': 0}] + _cycle(1, 2))

CLI_PLANS = {
    'C16': {
        'own': 'C16',
        'models': {'quick': [('u2', KC(upd=(('a', 'b'), ('b',)), maxupd=1, flips=1, calls=3, fb=0, director=1))],
                   'thorough': [('u3', KC(addrs=ABC, upd=(('a', 'b'), ('b', 'c')), init=('a', 'b'), maxupd=2, flips=1, calls=3, fb=0, director=1)),
                                ('u2r', KC(policy='random', upd=(('a', 'b'), ('b',)), maxupd=2, flips=1, calls=4, fb=1, director=1)),
                                ('u2l', KC(policy='lt', upd=(('a', 'b'), ('b',)), maxupd=2, flips=1, calls=3, fb=0, lats=(10, 30)))]},
        'devs': [('stale', ['StaleProbeReinserts'], KC(upd=(('a', 'b'), ('b',)), maxupd=1, flips=0, calls=2, fb=0)),
                 ('stalemap', ['ListFromStaleMap'], KC(upd=(('a', 'b'), ('b',)), maxupd=1, flips=0, calls=2, fb=0))],
        'sims': [('rr', KC(addrs=ABC, upd=(('a', 'b'), ('b', 'c'), ('a', 'b', 'c'), ('c',)), init=('a', 'b'), maxupd=3, flips=2, calls=8, fb=1, director=2)),
                 ('rnd', KC(addrs=ABC, policy='random', upd=(('a', 'b'), ('b', 'c'), ('a', 'b', 'c')), init=('a', 'b', 'c'), maxupd=3, flips=2, calls=8, fb=1, director=1)),
                 ('lt', KC(addrs=ABC, policy='lt', upd=(('a', 'b'), ('b', 'c'), ('a', 'b', 'c')), init=('a', 'b', 'c'), maxupd=3, flips=2, calls=8, fb=0, lats=(10, 30)))],
        'forms': ('call', 'go', 'rt', 'ctx', 'ping', 'stream', 'gonil'),
        # exactly one live target, Update replaces it, and a call is routed before the first probe of the new set has finished: the
        # caller must wait for the new target (or, with an empty set, fail), never reach the removed one
        'scripts': [('updswap', KC(upd=(('b',),), init=('a',), maxupd=1, flips=0, calls=3, fb=0, callers=(1,)),
                     [{'a': 'Detect'}, {'a': 'ProbeDone', 'addr': 'a', 'g': 0}] + _cycle(1, 2) +
                     [{'a': 'Update', 'set': ['b']}, {'a': 'Route', 'k': 1}, {'a': 'Detect'}, {'a': 'ProbeDone', 'addr': 'b', 'g': 1}, {'a': 'WokenPick', 'k': 1},
                      {'a': 'CallDone', 'k': 1}, {'a': 'Again', 'k': 1}] + _cycle(1, 1), ('call', 'ctx', 'go', 'ping')),
                    ('updswap2', KC(upd=(('a', 'b'),), init=('a',), maxupd=1, flips=0, calls=3, fb=0, callers=(1,)),
                     [{'a': 'Detect'}, {'a': 'ProbeDone', 'addr': 'a', 'g': 0}] + _cycle(1, 1) +
                     [{'a': 'Update', 'set': ['a', 'b']}, {'a': 'Route', 'k': 1}, {'a': 'Detect'}, {'a': 'ProbeDone', 'addr': 'b', 'g': 1}, {'a': 'ProbeDone', 'addr': 'a', 'g': 1},
                      {'a': 'WokenPick', 'k': 1}, {'a': 'CallDone', 'k': 1}, {'a': 'Again', 'k': 1}] + _cycle(1, 2), ('call', 'rt'))],
    },
    'C17': {
        'own': 'C17',
        'models': {'quick': [('rr3', KC(addrs=ABC, upd=(('a', 'b', 'c'),), init=('a', 'b', 'c'), maxupd=0, flips=1, calls=5, fb=0, callers=(1,))),
                             ('lt2', KC(policy='lt', upd=(('a', 'b'),), maxupd=0, flips=1, calls=4, fb=0, lats=(10, 30), callers=(1,)))],
                   'thorough': [('rr3', KC(addrs=ABC, upd=(('a', 'b', 'c'),), init=('a', 'b', 'c'), maxupd=0, flips=2, calls=6, fb=0)),
                                ('lt3', KC(addrs=ABC, policy='lt', upd=(('a', 'b', 'c'),), init=('a', 'b', 'c'), maxupd=0, flips=1, calls=5, fb=0, lats=(10, 30), callers=(1,))),
                                ('rnd3', KC(addrs=ABC, policy='random', upd=(('a', 'b', 'c'),), init=('a', 'b', 'c'), maxupd=0, flips=1, calls=4, fb=0))]},
        'devs': [('cursor', ['CursorNotAdvanced'], KC(addrs=ABC, upd=(('a', 'b', 'c'),), init=('a', 'b', 'c'), maxupd=0, flips=0, calls=4, fb=0, callers=(1,))),
                 ('rebuild', ['SpuriousRebuild'], KC(addrs=ABC, upd=(('a', 'b', 'c'),), init=('a', 'b', 'c'), maxupd=0, flips=1, calls=4, fb=0, callers=(1,))),
                 ('maxmin', ['MaxInsteadOfMin'], KC(policy='lt', upd=(('a', 'b'),), maxupd=0, flips=0, calls=5, fb=0, lats=(10, 30), callers=(1,))),
                 ('probeall', ['ProbeEveryCall'], KC(policy='lt', upd=(('a', 'b'),), maxupd=0, flips=0, calls=4, fb=0, lats=(10, 30), callers=(1,)))],
        'sims': [('rr', KC(addrs=ABC, upd=(('a', 'b', 'c'),), init=('a', 'b', 'c'), maxupd=0, flips=2, calls=12, fb=0, callers=(1,))),
                 ('rr4', KC(addrs=('a', 'b', 'c', 'd'), upd=(('a', 'b', 'c', 'd'),), init=('a', 'b', 'c', 'd'), maxupd=0, flips=1, calls=14, fb=0, callers=(1,))),
                 ('rnd', KC(addrs=ABC, policy='random', upd=(('a', 'b', 'c'),), init=('a', 'b', 'c'), maxupd=0, flips=2, calls=12, fb=0, callers=(1,))),
                 ('lt', KC(addrs=ABC, policy='lt', upd=(('a', 'b', 'c'),), init=('a', 'b', 'c'), maxupd=0, flips=2, calls=14, fb=0, lats=(10, 30), callers=(1,))),
                 ('lt4', KC(addrs=('a', 'b', 'c', 'd'), policy='lt', upd=(('a', 'b', 'c', 'd'),), init=('a', 'b', 'c', 'd'), maxupd=0, flips=1, calls=16, fb=0, lats=(10, 30), callers=(1,)))],
        'forms': ('call', 'ctx', 'ping', 'call'),
        # a failing target reached through each call form that reports the outcome to its target (and the asynchronous ones beside them)
        'scripts': [('deadstay', KC(addrs=ABC, upd=(('a', 'b', 'c'),), init=('a', 'b', 'c'), maxupd=0, flips=1, calls=3, fb=0, callers=(1,)), _dead_script(3),
                     ('call', 'ctx', 'ping', 'stream', 'go', 'rt')),
                    ('deadstay_lt', KC(addrs=ABC, policy='lt', upd=(('a', 'b', 'c'),), init=('a', 'b', 'c'), maxupd=0, flips=1, calls=3, fb=0, lats=(10, 30), callers=(1,)),
                     _dead_script(3), ('call', 'ctx'))],
    },
    'C18': {
        'own': 'C18',
        'models': {'quick': [('w2', KC(upd=(('a', 'b'),), maxupd=0, flips=2, calls=3, fb=1))],
                   'thorough': [('w3', KC(upd=(('a', 'b'), ('b',)), maxupd=1, flips=2, calls=4, fb=1, callers=(1, 2, 3))),
                                ('w2r', KC(policy='random', upd=(('a', 'b'),), maxupd=0, flips=3, calls=4, fb=1))]},
        'live': {'quick': [('lw', KC(upd=(('a', 'b'),), maxupd=0, flips=1, calls=2, fb=1))],
                 'thorough': [('lw3', KC(upd=(('a', 'b'),), maxupd=0, flips=2, calls=3, fb=1, callers=(1, 2, 3)))]},
        'devs': [('rebuildchange', ['RebuildOnlyOnChange'], KC(addrs=ABC, upd=(('a', 'b', 'c'),), init=('a', 'b', 'c'), maxupd=0, flips=1, calls=3, fb=0, callers=(1,))),
                 ('lostwake', ['LostWakeup', 'DetectNoWake'], KC(upd=(('a', 'b'),), maxupd=0, flips=1, calls=2, fb=0), 'live'),
                 ('detectnowake', ['DetectNoWake'], KC(upd=(('a', 'b'),), maxupd=0, flips=0, calls=2, fb=1)),
                 ('detectneedsprobe', ['DetectWakeNeedsProbe'], KC(upd=(('a', 'b'),), maxupd=0, flips=0, calls=2, fb=1)),
                 ('nowakeclose', ['NoWakeOnClose'], KC(upd=(('a', 'b'),), maxupd=0, flips=0, calls=2, fb=0)),
                 ('waitafterclose', ['WaitAfterClose'], KC(upd=(('a', 'b'),), maxupd=0, flips=0, calls=2, fb=0)),
                 ('timeoutleak', ['TimeoutLeaks'], KC(upd=(('a', 'b'),), maxupd=0, flips=0, calls=2, fb=0))],
        'sims': [('w', KC(upd=(('a', 'b'), ('b',)), maxupd=1, flips=3, calls=8, fb=2, callers=(1, 2, 3))),
                 ('wr', KC(policy='random', upd=(('a', 'b'),), maxupd=0, flips=3, calls=8, fb=2, callers=(1, 2, 3))),
                 ('w3', KC(addrs=ABC, upd=(('a', 'b', 'c'),), init=('a', 'b', 'c'), maxupd=0, flips=4, calls=8, fb=1, callers=(1, 2)))],
        'forms': ('call', 'ctx', 'go', 'rt', 'ping', 'stream', 'gonil'),
        # behaviours of the intended model written out by hand where the route a counterexample takes depends on the order of the
        # live list (Go map order): one call per live target, so that the failing one is reached whatever the order
        'scripts': [('deadstay', KC(addrs=ABC, upd=(('a', 'b', 'c'),), init=('a', 'b', 'c'), maxupd=0, flips=1, calls=3, fb=0, callers=(1,)), _dead_script(3))],
    },
}

def cli_check(pid, tier, replay_file=None):
    t0 = time.time()
    violations, cov, assumptions = cli_core(pid, CLI_PLANS[pid], tier, replay_file)
    return finish(pid, tier, 'model_checking', cov, t0, violations, [], assumptions)

def cli_core(pid, plan, tier, replay_file=None, models=True, nsim_quick=30):
    sd = seed()
    assumptions = ['the Client runs over a scripted RoundTripper (target health, probe completion and call completion are driven by the schedule)',
                   'detector passes are released one by one through the k.detect.gate hook (the real 100 ms ticker still paces them)',
                   'estimate arithmetic (documented moving average) is re-computed by the harness from the logged inputs; the specification decides which target may be picked',
                   'the order of the live list (Go map iteration order) is not logged: the trace specification searches the orders that explain the picks']
    violations = []
    cov = {'model_runs': [], 'deviation_runs': [], 'states': 0, 'transitions': 0, 'traces_validated_against_impl': 0, 'samples': [],
           'schedules_replayed': 0, 'trace_events': 0}
    schedules = []
    if replay_file:
        schedules = [json.load(open(replay_file))['schedule']]
    else:
        if not os.environ.get('VERIF_SKIP_MC') and models:
            for tag, c in plan['models'].get(tier, plan['models']['quick']):
                res = kf.model_check('%s_%s' % (pid, tag), c, timeout=3000 if tier == 'thorough' else 600)
                cov['model_runs'].append({'instance': tag, 'constants': res['consts'], 'distinct_states': res['distinct'], 'states_generated': res['states'],
                                          'depth': res['depth'], 'complete': res['complete'], 'wall_s': round(res['wall'], 1)})
                cov['states'] += res['distinct']; cov['transitions'] += res['states']
                if res['violated']:
                    raise Machinery('the intended Client design (Dev = {}) violates %s in instance %s\n%s' % (res['violated'], tag, res['out'][-2500:]))
                if not res['complete']:
                    raise Machinery('model checking of %s did not complete' % tag)
            for tag, c in plan.get('live', {}).get(tier, plan.get('live', {}).get('quick', [])):
                res = kf.model_check('%s_%s' % (pid, tag), c, timeout=3000 if tier == 'thorough' else 600, live=True)
                cov['model_runs'].append({'instance': tag + ' (liveness, fair library steps)', 'constants': res['consts'], 'distinct_states': res['distinct'],
                                          'states_generated': res['states'], 'complete': res['complete'], 'wall_s': round(res['wall'], 1)})
                cov['states'] += res['distinct']; cov['transitions'] += res['states']
                if res['violated'] or 'Temporal properties were violated' in res['out']:
                    raise Machinery('the intended Client design violates a liveness property in instance %s\n%s' % (tag, res['out'][-2500:]))
        forms = plan.get('forms', ('call',))
        for j, d in enumerate(plan['devs']):
            tag, dev, c = d[0], d[1], d[2]
            s, res = kf.deviation_schedule('%s_%s' % (pid, tag), c, dev, forms[j % len(forms)], live=(len(d) > 3))
            cov['deviation_runs'].append({'deviation': dev, 'violated_in_model': res['violated'], 'states_generated': res['states'],
                                          'schedule_len': len(s['steps']) if s else 0})
            if s is None:
                raise Machinery('deviation %s produced no counterexample (vacuity)' % dev)
            # the Client iterates over Go maps (target map): what a directed schedule shows depends on the iteration order of that
            # run, so each one is replayed several times
            for rep in range(8):
                s2 = dict(s); s2['name'] = s['name'] if rep == 0 else '%s#%d' % (s['name'], rep)
                schedules.append(s2)
        for sc in plan.get('scripts', []):
            tag, c, steps = sc[0], sc[1], sc[2]
            for form in (sc[3] if len(sc) > 3 else ('call',)):
                for rep in range(2):
                    s = kf.sched('%s_%s_%s%s' % (pid, tag, form, '#%d' % rep if rep else ''), c, [], form)
                    s['steps'] = s['steps'] + steps
                    schedules.append(s)
        nsim = nsim_quick if tier == 'quick' else 10 * nsim_quick
        for j, (tag, c) in enumerate(plan['sims']):
            ss, res = kf.sim_schedules('%s_%s' % (pid, tag), c, nsim, 50, sd * 1000 + j, forms)
            schedules.extend(ss)
    rp, crashes = kf.replay(schedules, pid)
    for cr in crashes:
        first = cr['panic'].splitlines()[0] if cr['panic'] else 'crash'
        violations.append({'property': pid, 'signature': 'crash:' + first[:80], 'summary': '%s: the process crashed inside hslam/rpc: %s' % (pid, first),
                           'schedule': None, 'finding': {'kind': 'crash', 'panic': cr['panic']}, 'trace': []})
    for gk, (tracefile, results, ss) in sorted(rp.items()):
        cov['schedules_replayed'] += len(ss)
        accepted, findings, stats = kf.validate(tracefile, ss[0]['cfg'], pid, [s['name'] for s in ss])
        cov['traces_validated_against_impl'] += accepted
        cov['trace_events'] += stats['events']
        for f in findings:
            owner = kf.OWN.get(f['what'], pid) if f['kind'] == 'invariant' else pid
            sig = '%s:%s@%s' % (f['kind'], f['what'] if f['kind'] == 'invariant' else 'rejected', f['event'].get('ev', ''))
            summary = '%s%s: %s %s at event %s (trace %s)' % ('' if owner == pid else '[invariant owned by %s] ' % owner, owner, f['what'], f.get('detail', ''),
                                                             json.dumps({k: f['event'].get(k) for k in ('ev', 'c', 'a', 'b', 's', 'seq', 'k', 'calls')}), f['name'])
            sch = ss[f['trace']] if f['trace'] < len(ss) else None
            # a trace in which calls reached the RoundTripper with an address although not one routing / detector event of the
            # library was recorded is a recording gap of the harness (seen once; cause not found), not an execution of the code to
            # judge: that schedule is replayed again alone, and only what the second trace shows counts
            tev = [e.get('ev', '') for e in f.get('trace_events', [])]
            gap = any(e.get('ev') == 'rt.call' and e.get('a', 0) > 0 for e in f.get('trace_events', [])) and \
                not any(x.startswith(('k.sched', 'k.route', 'k.wait', 'k.detect', 'k.check')) for x in tev)
            if gap and sch is not None and not replay_file:
                cov['recording_gaps'] = cov.get('recording_gaps', 0) + 1
                rp2, cr2 = kf.replay([sch], pid + '_gap')
                again = []
                for gk2, (tf2, res2, ss2) in rp2.items():
                    acc2, again, st2 = kf.validate(tf2, ss2[0]['cfg'], pid + '_gap', [x['name'] for x in ss2])
                if cr2:
                    raise Machinery('re-run of a schedule with a recording gap crashed')
                if not again:
                    continue
                f = again[0]
                tev = [e.get('ev', '') for e in f.get('trace_events', [])]
                if not any(x.startswith(('k.sched', 'k.route', 'k.wait', 'k.detect', 'k.check')) for x in tev):
                    raise Machinery('hook events of the Client are not being recorded (schedule %s, twice)' % sch['name'])
                owner = kf.OWN.get(f['what'], pid) if f['kind'] == 'invariant' else pid
                sig = '%s:%s@%s' % (f['kind'], f['what'] if f['kind'] == 'invariant' else 'rejected', f['event'].get('ev', ''))
                summary = '%s%s: %s %s at event %s (trace %s, second run)' % ('' if owner == pid else '[invariant owned by %s] ' % owner, owner, f['what'], f.get('detail', ''),
                                                                            json.dumps({k: f['event'].get(k) for k in ('ev', 'c', 'a', 'b', 's', 'seq', 'k', 'calls')}), sch['name'])
            violations.append({'property': owner, 'signature': sig, 'summary': summary, 'schedule': sch,
                               'finding': {k: f[k] for k in ('kind', 'what', 'event', 'pos_in_trace', 'name')}, 'trace': f['trace_events']})
        if len(cov['samples']) < 3 and ss:
            tr = cf.split_traces(tracefile)
            cov['samples'].append({'schedule': ss[0]['name'], 'steps': ss[0]['steps'][:40], 'trace_excerpt': [json.loads(x) for x in tr[0][:25]] if tr else []})
    cov['rule'] = ('states/transitions: exhaustive TLC runs of Client.tla (Dev={}; liveness under weak fairness of library steps); traces: executions of the real '
                   'rpc.Client over a scripted RoundTripper driven by TLC behaviours, each accepted by ClientTrace with the invariants checked in every state')
    return violations, cov, assumptions

for _p in CLI_PLANS:
    REGISTRY[_p] = cli_check


# ---------------------------------------------------------------------------
# Stream family (C09 C10)
import streamfam as sf
SC = sf.consts
MODES = ({}, {'CliDirect': True}, {'SrvDirect': True}, {'SrvPipe': True}, {'CliDirect': True, 'SrvDirect': True})
def stream_scenarios(tier):
    out = []
    reps = 1 if tier == 'quick' else 6
    for rep in range(reps):
        for net, poll, readers in (('unix', False, 0), ('frag', False, 0), ('frag', True, 1), ('frag', True, 3)):
            for end in ('close', 'drop', 'half'):
                for mode in ({}, {'srvdirect': True}, {'clidirect': True}, {'srvpipe': True}):
                    if rep == 0 and mode and end == 'close' and not poll:
                        continue
                    sc = {'network': net, 'poll': poll, 'readers': readers, 'streams': 1 + (len(out) % 3), 'pushfirst': len(out) % 4,
                          'msgs': 3 + len(out) % 5, 'unary': len(out) % 6, 'end': end, 'frag': 7 if net == 'frag' else 0}
                    sc.update(mode)
                    out.append(sc)
    # messages that wait unread in the server's stream while other traffic flows (with and without Server.SetNoCopy); traffic on
    # the connection after its streams were closed; streams closed at the very moment a reader enters ReadMessage
    for rep in range(reps):
        for net, poll, readers in (('unix', False, 0), ('frag', False, 0), ('frag', True, 2)):
            for nocopy in (False, True):
                for mode in ({}, {'srvdirect': True}, {'srvpipe': True}):
                    out.append(dict({'network': net, 'poll': poll, 'readers': readers, 'streams': 2, 'msgs': 8, 'hold': 48, 'srvnocopy': nocopy, 'end': 'close',
                                     'frag': 9 if net == 'frag' else 0}, **mode))
            out.append({'network': net, 'poll': poll, 'readers': readers, 'streams': 3, 'pushfirst': 1, 'msgs': 4, 'unary': 4, 'end': 'close', 'after': 8,
                        'frag': 5 if net == 'frag' else 0})
            out.append({'network': net, 'poll': poll, 'readers': readers, 'streams': 1, 'msgs': 2, 'end': 'close', 'raceclose': 400 if tier == 'quick' else 2000,
                        'frag': 0})
            for mode in ({}, {'srvpipe': True}, {'srvdirect': True}):
                out.append(dict({'network': net, 'poll': poll, 'readers': readers, 'streams': 1, 'msgs': 2, 'end': 'close', 'burstclose': 12 if tier == 'quick' else 60,
                                 'frag': 0}, **mode))
            out.append({'network': net, 'poll': poll, 'readers': readers, 'streams': 2, 'msgs': 2, 'end': 'drop', 'burstclose': 6, 'frag': 0})
            if net == 'frag':
                out.append({'network': net, 'poll': poll, 'readers': 3 if poll else 0, 'streams': 2, 'msgs': 90, 'batch': 45, 'end': 'close', 'frag': 0})
                out.append({'network': net, 'poll': poll, 'readers': 3 if poll else 0, 'streams': 2, 'msgs': 60, 'batch': 30, 'end': 'drop', 'frag': 300, 'srvpipe': True})
                out.append({'network': net, 'poll': poll, 'readers': readers, 'streams': 2, 'pushfirst': 1, 'msgs': 3, 'end': 'drop', 'srveof': 'unexpected', 'frag': 0})
                out.append({'network': net, 'poll': poll, 'readers': readers, 'streams': 2, 'msgs': 3, 'end': 'half', 'srveof': 'unexpected', 'frag': 9})
            out.append({'network': net, 'poll': poll, 'readers': readers, 'streams': 3, 'pushfirst': 1, 'msgs': 3, 'end': 'half', 'frag': 0})
            # streams on a pipelining client connection, opened while replies of unary calls are being completed in order; the
            # handler writes first
            for pf, un in ((3, 12), (1, 6), (0, 6)):
                out.append({'network': net, 'poll': poll, 'readers': readers, 'streams': 3, 'pushfirst': pf, 'msgs': 4, 'unary': un, 'end': 'close', 'clipipe': True,
                            'frag': 5 if net == 'frag' else 0})
            out.append({'network': net, 'poll': poll, 'readers': readers, 'streams': 2, 'pushfirst': 2, 'msgs': 3, 'unary': 8, 'end': 'drop', 'clipipe': True, 'srvpipe': True, 'frag': 0})
    return out

STREAM_PLANS = {
    'C09': {
        'own': 'C09',
        'models': {'quick': [('s1', SC(streams=(1,), push=2, send=2)), ('s2', SC(streams=(1, 2), push=1, send=1, cut=False))],
                   'thorough': [('s2', SC(streams=(1, 2), push=2, send=1)), ('s1b', SC(streams=(1,), push=3, send=3))]},
        'devs': [('ackafter', ['AckAfterHandlerStart'], SC(streams=(1,), push=2, send=0, cut=False, close=False)),
                 ('flipcaller', ['FlipInCaller'], SC(streams=(1,), push=2, send=0, cut=False, close=False)),
                 ('dup', ['DupDeliver'], SC(streams=(1,), push=2, send=0, cut=False, close=False)),
                 ('cross', ['CrossDeliver'], SC(streams=(1, 2), push=1, send=0, cut=False, close=False)),
                 ('wfailroute', ['WriteFailDropsRoute'], SC(streams=(1,), push=1, send=0, bad=1, cut=False, close=False)),
                 ('wfailroute2', ['WriteFailDropsRoute'], SC(streams=(1, 2), push=1, send=1, bad=1, cut=False, close=False))],
        'sims': [('s2', SC(streams=(1, 2), push=3, send=3, bad=1)), ('s3', SC(streams=(1, 2, 3), push=2, send=2, cut=False)),
                 ('s1', SC(streams=(1,), push=5, send=5, cut=False, bad=2))],
        'scenarios': stream_scenarios,
    },
    'C10': {
        'own': 'C10',
        'models': {'quick': [('s2c', SC(streams=(1, 2), push=1, send=0)), ('s1c', SC(streams=(1,), push=1, send=1))],
                   'thorough': [('s2', SC(streams=(1, 2), push=1, send=1)), ('s2p', SC(streams=(1, 2), push=1, send=1, poll=True))]},
        'live': {'quick': [('l1', SC(streams=(1,), push=1, send=1))], 'thorough': [('l2', SC(streams=(1, 2), push=1, send=0))]},
        'devs': [('nosweep', ['NoClientSweep'], SC(streams=(1,), push=1, send=0)),
                 ('wfaildrop', ['WriteFailDropsStream'], SC(streams=(1, 2), push=0, send=1, bad=1)),
                 ('closewrong', ['CloseWrongEntry'], SC(streams=(1, 2), push=0, send=0, cut=False)),
                 ('pollnosweep', ['PollNoStreamSweep'], SC(streams=(1,), push=0, send=0, poll=True))],
        'sims': [('s2', SC(streams=(1, 2), push=2, send=2, bad=1)), ('s3', SC(streams=(1, 2, 3), push=1, send=1, bad=1)),
                 ('s1', SC(streams=(1,), push=3, send=3, bad=1))],
        'scenarios': stream_scenarios,
    },
}

def stream_check(pid, tier, replay_file=None):
    t0 = time.time()
    violations, cov, assumptions = stream_core(pid, STREAM_PLANS[pid], tier, replay_file)
    return finish(pid, tier, 'model_checking', cov, t0, violations, [], assumptions)

def stream_core(pid, plan, tier, replay_file=None, models=True):
    sd = seed()
    assumptions = ['the stream handler on the server is a puppet executing one command at a time (push / read / return); frames are delivered one by one over the harness wire',
                   'the trace specification follows the intended design only: lost, duplicated, reordered or cross-delivered messages make a trace unexplainable',
                   'a read still blocked 2 s after the connection ended counts as blocked forever']
    violations = []
    cov = {'model_runs': [], 'deviation_runs': [], 'states': 0, 'transitions': 0, 'traces_validated_against_impl': 0, 'samples': [],
           'schedules_replayed': 0, 'trace_events': 0}
    schedules = []
    if replay_file:
        schedules = [json.load(open(replay_file))['schedule']]
    else:
        if not os.environ.get('VERIF_SKIP_MC') and models:
            for tag, c in plan['models'].get(tier, plan['models']['quick']):
                res = sf.model_check('%s_%s' % (pid, tag), c, timeout=3000 if tier == 'thorough' else 600)
                cov['model_runs'].append({'instance': tag, 'constants': res['consts'], 'distinct_states': res['distinct'], 'states_generated': res['states'],
                                          'depth': res['depth'], 'complete': res['complete'], 'wall_s': round(res['wall'], 1)})
                cov['states'] += res['distinct']; cov['transitions'] += res['states']
                if res['violated']:
                    raise Machinery('the intended stream design (Dev = {}) violates %s in instance %s\n%s' % (res['violated'], tag, res['out'][-2500:]))
                if not res['complete']:
                    raise Machinery('model checking of %s did not complete' % tag)
            for tag, c in plan.get('live', {}).get(tier, plan.get('live', {}).get('quick', [])):
                res = sf.model_check('%s_%s' % (pid, tag), c, timeout=3000 if tier == 'thorough' else 600, live=True)
                cov['model_runs'].append({'instance': tag + ' (liveness)', 'constants': res['consts'], 'distinct_states': res['distinct'],
                                          'states_generated': res['states'], 'complete': res['complete'], 'wall_s': round(res['wall'], 1)})
                cov['states'] += res['distinct']; cov['transitions'] += res['states']
                if res['violated']:
                    raise Machinery('the intended stream design violates liveness %s in instance %s\n%s' % (res['violated'], tag, res['out'][-2500:]))
        for j, (tag, dev, c) in enumerate(plan['devs']):
            s, res = sf.deviation_schedule('%s_%s' % (pid, tag), c, dev, MODES[j % len(MODES)])
            cov['deviation_runs'].append({'deviation': dev, 'violated_in_model': res['violated'], 'states_generated': res['states'],
                                          'schedule_len': len(s['steps']) if s else 0})
            if s is None:
                raise Machinery('deviation %s produced no counterexample (vacuity)' % dev)
            schedules.append(s)
        nsim = 40 if tier == 'quick' else 400
        for j, (tag, c) in enumerate(plan['sims']):
            ss, res = sf.sim_schedules('%s_%s' % (pid, tag), c, nsim, 70, sd * 1000 + j, MODES)
            schedules.extend(ss)
    rp, crashes = sf.replay(schedules, pid)
    for cr in crashes:
        first = cr['panic'].splitlines()[0] if cr['panic'] else 'crash'
        violations.append({'property': pid, 'signature': 'crash:' + first[:80], 'summary': '%s: the process crashed inside hslam/rpc: %s' % (pid, first),
                           'schedule': None, 'finding': {'kind': 'crash', 'panic': cr['panic']}, 'trace': []})
    if rp:
        tracefile, results, ss = rp
        cov['schedules_replayed'] += len(ss)
        accepted, findings, stats = sf.validate(tracefile, pid, [s['name'] for s in ss])
        cov['traces_validated_against_impl'] += accepted
        cov['trace_events'] += stats['events']
        for f in findings:
            owner = sf.OWN.get(f['what'], pid) if f['kind'] == 'invariant' else sf.REJECT_OWNER.get(f['event'].get('ev', ''), pid)
            sig = '%s:%s@%s' % (f['kind'], f['what'] if f['kind'] == 'invariant' else 'rejected', f['event'].get('ev', ''))
            summary = '%s%s: %s at event %s (trace %s)' % ('' if owner == pid else '[owned by %s] ' % owner, owner, f['what'],
                                                          json.dumps({k: f['event'].get(k) for k in ('ev', 'c', 'a', 'b', 's', 'seq', 'k', 'sent')}), f['name'])
            sch = ss[f['trace']] if f['trace'] < len(ss) else None
            violations.append({'property': owner, 'signature': sig, 'summary': summary, 'schedule': sch,
                               'finding': {k: f[k] for k in ('kind', 'what', 'event', 'pos_in_trace', 'name')}, 'trace': f['trace_events']})
        if ss:
            tr = cf.split_traces(tracefile)
            cov['samples'].append({'schedule': ss[0]['name'], 'steps': ss[0]['steps'][:40], 'trace_excerpt': [json.loads(x) for x in tr[0][:25]] if tr else []})
    if plan.get('scenarios') and not replay_file:
        # ungated scenarios on real sockets, poll-mode branch included (API-level oracle: what each ReadMessage returned)
        scs = []
        for j, sc in enumerate(plan['scenarios'](tier)):
            sc = dict(sc); sc.setdefault('seed', sd * 100 + j); sc.setdefault('name', '%s-sc%d' % (pid, j))
            scs.append(sc)
        results, scr = cf.run_stress(scs, pid, cmd='sstress')
        cov['scenario_runs'] = len(results)
        cov['scenario_messages'] = sum(r.get('calls', 0) for r in results)
        for r in results:
            for fl in (r.get('failures') or [])[:3]:
                cfg = [x for x in scs if x['name'] == r['name']]
                violations.append({'property': pid, 'signature': 'scenario:' + ' '.join(fl.split()[:6]), 'summary': '%s: stream scenario %s: %s' % (pid, r['name'], fl),
                                   'stress_config': cfg[0] if cfg else None, 'schedule': None, 'finding': {'kind': 'scenario', 'failure': fl}, 'trace': []})
        for cr in scr:
            first = cr['panic'].splitlines()[0] if cr['panic'] else 'crash'
            violations.append({'property': pid, 'signature': 'crash:' + first[:80], 'summary': '%s: the process crashed inside hslam/rpc in scenario %s: %s' % (pid, (cr['config'] or {}).get('name'), first),
                               'stress_config': cr['config'], 'schedule': None, 'finding': {'kind': 'crash', 'panic': cr['panic']}, 'trace': []})
        if scs:
            cov['samples'].append({'scenario': scs[0]})
    cov['rule'] = ('states/transitions: exhaustive TLC runs of RpcStream.tla (Dev={}; liveness under fairness of library steps and of readers); traces: executions of the '
                   'real Conn/ServeCodec stream code driven by TLC behaviours, each accepted by RpcStreamTrace')
    return violations, cov, assumptions

for _p in STREAM_PLANS:
    REGISTRY[_p] = stream_check


# ---------------------------------------------------------------------------
# C07: wire formats (Wire.tla as generator and oracle)
def wire_vectors(tier, tag):
    import re as _re
    wd = scratch('wire_' + tag)
    cfg = 'SPECIFICATION Spec\nCONSTANTS Tier = "%s"\nINVARIANTS VarintWellFormed UpgradeInjective\nCONSTRAINT Emit\nCHECK_DEADLOCK FALSE\n' % tier
    res = run_tlc(wd, 'Wire.tla', cfg, ['Wire.tla'], workers=1, timeout=1200)
    if not res['complete']:
        raise Machinery('Wire.tla vector generation failed:\n' + res['out'][-2000:])
    seen, lines = set(), []
    for m in _re.finditer(r'^<<"VEC", "(.*)">>$', res['out'], _re.M):
        sline = m.group(1).replace('\\"', '"').replace('\\\\', '\\')
        if sline not in seen:
            seen.add(sline); lines.append(sline)
    path = os.path.join(wd, 'vecs.ndjson')
    open(path, 'w').write('\n'.join(lines) + '\n')
    return wd, path, len(lines), res

def wire_check(pid, tier, replay_file=None):
    t0 = time.time()
    vh = build_harness()
    wd, path, n, res = wire_vectors(tier, pid)
    rc, o = sh([vh, 'wirecheck', '-in', path, '-out', os.path.join(wd, 'res.json')], cwd=wd, timeout=1800, env=dict(os.environ, GOTRACEBACK='all'))
    violations = []
    if rc != 0:
        if cf.is_lib_crash(o):
            i = o.find('panic:')
            violations.append({'property': pid, 'signature': 'crash:' + o[i:i + 80], 'summary': '%s: the library crashed on a header vector: %s' % (pid, o[i:i + 200]),
                               'schedule': None, 'finding': {'kind': 'crash', 'panic': o[i:i + 2500]}, 'trace': []})
            r = {'checked': 0, 'by_encoder': {}, 'failures': [], 'samples': []}
        else:
            raise Machinery('wirecheck failed (rc=%d):\n%s' % (rc, o[-2000:]))
    else:
        r = json.load(open(os.path.join(wd, 'res.json')))
    for fl in (r.get('failures') or [])[:8]:
        violations.append({'property': pid, 'signature': 'wire:' + ' '.join(fl.split()[:2]), 'summary': '%s: %s' % (pid, fl), 'schedule': None,
                           'finding': {'kind': 'vector', 'failure': fl}, 'trace': []})
    cov = {'evaluations': r['checked'], 'distinct_nontrivial': n, 'exhaustive': True,
           'rule': ('vectors are the states TLC enumerates from spec/Wire.tla (tier %s): one header field at a time over its varint boundaries '
                    '(sequence numbers 0..2^64-1 as base-128 digit strings, lengths 0/1/127/128/129/16383/16384/2^21-1/2^21), 4 encoders x request/response x '
                    'scratch-buffer classes, all 32 upgrade flag combinations; each vector carries the bytes the documented format prescribes; distinct = distinct TLC states; '
                    'every vector is non-trivial (it exercises encode, decode and an independent reader of the format)') % tier,
           'states': res['distinct'], 'transitions': res['states'], 'by_encoder': r.get('by_encoder'), 'samples': (r.get('samples') or [])[:3] or ['none']}
    shutil.rmtree(wd, ignore_errors=True)
    return finish(pid, tier, 'exploration', cov, t0, violations, [],
                  ['the documented formats are transcribed in spec/Wire.tla; the harness expands symbolic fields (len, seed) into bytes; JSON headers are compared as documents, not byte by byte',
                   'bytes written to socket.Messages by the codecs are covered indirectly (the in-memory wire of the connection checks parses every frame with the same independent reader)'])

REGISTRY['C07'] = wire_check


# ---------------------------------------------------------------------------
# C08: nothing a peer does can crash the process
def c08_worker(mode, tier, wd, extra=()):
    """Runs one C08 worker mode to completion, restarting after each crash (a crash is a finding)."""
    vh = build_harness()
    out, prog = os.path.join(wd, mode + '.json'), os.path.join(wd, mode + '.progress')
    crashes, start, result = [], 0, None
    for attempt in range(12):
        for fn in (out, prog):
            try: os.remove(fn)
            except OSError: pass
        cmd = [vh, 'c08', '-mode', mode, '-out', out, '-progress', prog, '-seed', str(seed()), '-from', str(start)] + list(extra)
        if tier == 'thorough':
            cmd.append('-thorough')
        rc, o = sh(cmd, cwd=wd, timeout=2400, env=dict(os.environ, GOTRACEBACK='all', VERIF_SOCKDIR=wd))
        if rc == 0 and os.path.exists(out):
            result = json.load(open(out))
            break
        where = open(prog).read() if os.path.exists(prog) else '?'
        if cf.is_lib_crash(o) or 'panic:' in o or 'fatal error:' in o:
            i = o.find('panic:') if 'panic:' in o else o.find('fatal error:')
            if 'github.com/hslam' not in o[i:i + 6000] and 'verifharness' in o[i:i + 3000] and 'hslam/rpc' not in o:
                raise Machinery('C08 worker (%s) crashed in the harness itself:\n%s' % (mode, o[i:i + 2500]))
            crashes.append({'mode': mode, 'case': where[:600], 'panic': o[i:i + 2500]})
            try:
                start = int(where.split()[0]) + (1 if mode == 'dispatch' else 0)
            except (ValueError, IndexError):
                break
            if len(crashes) >= 4:
                break       # enough crashes for a verdict
            continue
        raise Machinery('C08 worker %s failed (rc=%s):\n%s' % (mode, rc, o[-2500:]))
    return result, crashes

def c08_check(pid, tier, replay_file=None):
    import re as _re
    t0 = time.time()
    violations = []
    cov = {'model_runs': [], 'states': 0, 'transitions': 0, 'traces_validated_against_impl': 0, 'samples': [], 'worker_modes': {}}
    wd = scratch('c08')
    # 1. specifications: dispatch table (total function over 256 flag bytes x method x args x stream) and the teardown protocol
    res = run_tlc(wd, 'SrvDispatch.tla', 'SPECIFICATION DSpec\nINVARIANTS ValidCount\nCONSTRAINT Emit\nCHECK_DEADLOCK FALSE\n', ['SrvDispatch.tla'], workers=1, timeout=900)
    if not res['complete']:
        raise Machinery('SrvDispatch.tla failed:\n' + res['out'][-2000:])
    seen, lines = set(), []
    for m in _re.finditer(r'^<<"CASE", "(.*)">>$', res['out'], _re.M):
        ln = m.group(1).replace('\\"', '"')
        if ln not in seen:
            seen.add(ln); lines.append(ln)
    if tier == 'quick':      # every flag byte with a known method and decodable arguments, and a third of the rest
        keep = []
        for i, ln in enumerate(lines):
            c = json.loads(ln)['c']
            if (c['method'] == 'unary' and c['args'] == 'ok') or (c['method'] == 'stream' and c['args'] == 'empty') or i % 3 == seed() % 3:
                keep.append(ln)
        lines = keep
    open(os.path.join(wd, 'cases.ndjson'), 'w').write('\n'.join(lines) + '\n')
    cov['model_runs'].append({'spec': 'SrvDispatch', 'distinct_states': res['distinct'], 'states_generated': res['states'], 'cases_used': len(lines)})
    cov['states'] += res['distinct']; cov['transitions'] += res['states']
    for frames in ((4,) if tier == 'quick' else (4, 8)):
        c = {'Frames': frames, 'Dev': set()}
        r = run_tlc(wd, 'SrvTeardown.tla', cfg_text('Spec', c, ['NoAddAfterWaitBegin', 'HandlersDoneBeforeClose', 'NoDispatchAfterClose'], []), ['SrvTeardown.tla'], workers=4, timeout=300)
        if r['violated'] or not r['complete']:
            raise Machinery('the intended teardown protocol violates %s\n%s' % (r['violated'], r['out'][-1500:]))
        cov['model_runs'].append({'spec': 'SrvTeardown', 'Frames': frames, 'distinct_states': r['distinct'], 'states_generated': r['states']})
        cov['states'] += r['distinct']; cov['transitions'] += r['states']
        rl = run_tlc(wd, 'SrvTeardown.tla', cfg_text('LiveSpec', c, [], ['TeardownCompletes']), ['SrvTeardown.tla'], workers=4, timeout=300)
        if rl['violated']:
            raise Machinery('the intended teardown protocol is not live\n' + rl['out'][-1500:])
    rd = run_tlc(wd, 'SrvTeardown.tla', cfg_text('Spec', {'Frames': 4, 'Dev': {'WaitBeforeDrain'}}, ['NoAddAfterWaitBegin'], []), ['SrvTeardown.tla'], workers=4, timeout=300)
    if not rd['violated']:
        raise Machinery('deviation WaitBeforeDrain produced no counterexample (vacuity)')
    cov['model_runs'].append({'spec': 'SrvTeardown', 'deviation': 'WaitBeforeDrain', 'violated_in_model': rd['violated'],
                              'counterexample': [a for a, _ in error_trace(rd)]})
    # 2. workers
    for mode, extra in (('dispatch', ('-in', os.path.join(wd, 'cases.ndjson'))), ('bytes-server', ()), ('bytes-client', ()), ('burst', ())):
        result, crashes = c08_worker(mode, tier, wd, extra)
        cov['worker_modes'][mode] = {'cases': (result or {}).get('cases', 0), 'crashes': len(crashes)}
        cov['traces_validated_against_impl'] += (result or {}).get('cases', 0)
        for cr in crashes[:4]:
            first = cr['panic'].splitlines()[0] if cr['panic'] else 'crash'
            violations.append({'property': pid, 'signature': 'crash:%s:%s' % (mode, first[:60]), 'summary': 'C08: the process crashed (%s) at case %s: %s' % (mode, cr['case'][:300], first),
                               'schedule': None, 'finding': cr, 'trace': []})
        for fl in ((result or {}).get('failures') or [])[:5]:
            violations.append({'property': pid, 'signature': 'c08:%s:%s' % (mode, ' '.join(fl.split()[2:6])), 'summary': 'C08 (%s): %s' % (mode, fl),
                               'schedule': None, 'finding': {'kind': mode, 'failure': fl}, 'trace': []})
        cov['samples'].extend(((result or {}).get('samples') or [])[:2])
    # 3. well-formed but hostile timing: a burst of large stream messages with the close frame right behind it, then a call
    scs = []
    for j, (net, extra) in enumerate((('unix', {}), ('unix', {'srvpipe': True}), ('unix', {'srvdirect': True}), ('frag', {'frag': 200}),
                                      ('frag', {'poll': True, 'readers': 2, 'frag': 200}), ('frag', {'poll': True, 'readers': 1, 'srvpipe': True, 'frag': 0}))):
        scs.append(dict({'name': 'C08-bc%d' % j, 'network': net, 'streams': 1, 'msgs': 2, 'end': 'close', 'burstclose': 10 if tier == 'quick' else 60,
                         'seed': seed() * 10 + j}, **extra))
    sres, scr = cf.run_stress(scs, pid + 'b', cmd='sstress')
    cov['worker_modes']['stream-burst-close'] = {'cases': sum(sc['burstclose'] for sc in scs), 'crashes': len(scr)}
    for cr in scr:
        first = cr['panic'].splitlines()[0] if cr['panic'] else 'crash'
        violations.append({'property': pid, 'signature': 'crash:burstclose:' + first[:60], 'summary': 'C08: the process crashed when a stream was closed right behind a burst of its messages (%s): %s' % (
            json.dumps({k: v for k, v in (cr['config'] or {}).items() if k != 'name'}), first), 'schedule': None, 'stress_config': cr['config'], 'finding': cr, 'trace': []})
    for r in sres:
        for fl in (r.get('failures') or [])[:2]:
            violations.append({'property': pid, 'signature': 'c08:burstclose:' + ' '.join(fl.split()[:5]), 'summary': 'C08 (stream burst + close): %s' % fl, 'schedule': None,
                               'finding': {'kind': 'burstclose', 'failure': fl}, 'trace': []})
    # 4. peers that go away and come back under a load-balancing Client (3 targets, every rotation position, every policy):
    #    behaviours of Client.tla with health flips; a crash of the process or a caller left blocked is what counts here
    if not replay_file:
        k3 = KC(addrs=ABC, upd=(('a', 'b', 'c'),), init=('a', 'b', 'c'), maxupd=0, flips=1, calls=3, fb=0, callers=(1,))
        cplan = {'models': {}, 'devs': [], 'forms': ('call', 'go', 'ctx', 'ping'),
                 'scripts': [('shrink%d' % p, k3, _dead_script(3 + p)) for p in (0, 1, 2)],
                 'sims': [('rr3', KC(addrs=ABC, upd=(('a', 'b', 'c'),), init=('a', 'b', 'c'), maxupd=0, flips=5, calls=14, fb=0, callers=(1,))),
                          ('lt3', KC(addrs=ABC, policy='lt', upd=(('a', 'b', 'c'),), init=('a', 'b', 'c'), maxupd=0, flips=4, calls=12, fb=0, lats=(10, 30), callers=(1,)))]}
        kv, kcov, kass = cli_core(pid, cplan, tier, None, models=False, nsim_quick=16)
        violations.extend(kv[:4])
        cov['worker_modes']['client-failover'] = {'cases': kcov['schedules_replayed'], 'crashes': sum(1 for v in kv if v.get('signature', '').startswith('crash'))}
    if not cov['samples']:
        cov['samples'] = ['none']
    cov['evaluations'] = sum(v['cases'] for v in cov['worker_modes'].values())
    cov['distinct_nontrivial'] = cov['evaluations']
    cov['rule'] = ('dispatch: the cases TLC enumerates from SrvDispatch.tla (flag byte x method class x argument class x stream known), each sent as a frame to a real server in a worker process, '
                   'response class compared with the specification, a well-formed probe must be served behind it; bytes-server / bytes-client: every truncation and single-byte corruptions '
                   '(xor 0x01 / 0x80 / 0xFF / zero) of valid frames under each header encoder plus seeded random frames, sent to a server resp. injected as responses into a Conn with outstanding calls; '
                   'burst: 0..N requests (unary / heartbeat / open-stream mix) then disconnect, on ServeCodec and the poll-mode branch (1-3 readers), hook stamps checked for WaitGroup.Add after Wait began; '
                   'every case is distinct by construction; the worker process exit status is the crash oracle')
    shutil.rmtree(wd, ignore_errors=True)
    return finish(pid, tier, 'fault_enumeration', cov, t0, violations, [],
                  ['a frame is what ReadMessage returns (reading R7): the length prefix handled inside hslam/socket is out of scope',
                   'crash oracle: exit status + Go panic banner of the worker subprocess; each hostile frame is followed (at least every 25 frames) by a well-formed probe on the same or on a fresh connection'])

REGISTRY['C08'] = c08_check


# ---------------------------------------------------------------------------
# C12: options change performance, not results
def config_space(wd):
    import re as _re
    res = run_tlc(wd, 'Config.tla', 'SPECIFICATION Spec\nINVARIANTS ResolutionSymmetric\nCONSTRAINT Emit\nCHECK_DEADLOCK FALSE\n', ['Config.tla'], workers=1, timeout=1200)
    if not res['complete']:
        raise Machinery('Config.tla enumeration failed:\n' + res['out'][-2000:])
    seen, cfgs = set(), []
    for m in _re.finditer(r'^<<"CFG", "(.*)">>$', res['out'], _re.M):
        ln = m.group(1).replace('\\"', '"')
        if ln not in seen:
            seen.add(ln); cfgs.append(json.loads(ln))
    return cfgs, res

def pairwise(cfgs, rnd, extra=0):
    """greedy covering array: every pair of (dimension=value) settings that occurs in the space occurs in a chosen configuration"""
    keys = sorted(cfgs[0].keys())
    def pairs(c):
        return {(k1, str(c[k1]), k2, str(c[k2])) for i, k1 in enumerate(keys) for k2 in keys[i + 1:]}
    pool = list(cfgs)
    rnd.shuffle(pool)
    pool = pool[:6000]
    need = set()
    for c in pool:
        need |= pairs(c)
    chosen = []
    while need:
        best, gain = None, -1
        for c in rnd.sample(pool, min(len(pool), 400)):
            g = len(pairs(c) & need)
            if g > gain:
                best, gain = c, g
        if gain <= 0:
            break
        chosen.append(best)
        need -= pairs(best)
    chosen += rnd.sample(cfgs, min(extra, len(cfgs)))
    return chosen

def c12_check(pid, tier, replay_file=None):
    import random as _random
    t0 = time.time()
    wd = scratch('c12')
    cfgs, res = config_space(wd)
    rnd = _random.Random(seed())
    if tier == 'quick':
        sel = pairwise(cfgs, rnd, extra=20)
    else:
        sel = pairwise(cfgs, rnd, extra=0) + rnd.sample(cfgs, min(6000, len(cfgs)))
    work = []
    for i, c in enumerate(sel):
        w = {'name': 'cfg%d' % i, 'network': c['network'], 'tls': c['tls'], 'header': c['header'], 'codec': c['codec'], 'byname': c['byname'],
             'poll': c['poll'], 'srvpipe': c['srvpipe'], 'srvdirect': c['srvdirect'], 'ctxbuf': c['ctxbuf'], 'nocopy': c['nocopy'],
             'clipipe': c['clipipe'], 'clidirect': c['clidirect'], 'bufsize': c['bufsize'], 'conns': 2, 'callers': 2,
             'calls': 16 if tier == 'quick' else 10, 'seed': 4242 + seed(), 'failevery': 4, 'missevery': 7, 'frag': 9 if c['network'] == 'frag' else 0,
             'readers': 2 if c['poll'] else 0, 'sizes': [0, 1, 20, 127, 128, 600, 3500, 5000, 66000, 70300, 80000]}
        if c['network'] == 'ws':
            w.update({'oneatatime': True, 'forms': 'call,ctx', 'callers': 1, 'calls': 2 * w['calls']})
        work.append(w)
    results, crashes = cf.run_stress(work, pid, shards=16, timeout=3000)
    violations = []
    for cr in crashes:
        first = cr['panic'].splitlines()[0] if cr['panic'] else 'crash'
        violations.append({'property': pid, 'signature': 'crash:' + first[:80], 'summary': 'C12: the process crashed under configuration %s: %s' % (json.dumps(cr['config']), first),
                           'stress_config': cr['config'], 'schedule': None, 'finding': {'kind': 'crash', 'panic': cr['panic']}, 'trace': []})
    byname = {w['name']: w for w in work}
    digests = {}
    skipped = []
    for r in results:
        w = byname.get(r['name'], {})
        if r.get('skipped'):
            skipped.append('%s: %s' % (json.dumps({k: w.get(k) for k in ('network', 'tls', 'codec', 'header')}), r['skipped']))
            continue
        for fl in (r.get('failures') or [])[:2]:
            violations.append({'property': pid, 'signature': 'config:' + ' '.join(fl.split()[-6:]), 'summary': 'C12: configuration %s: %s' % (json.dumps({k: v for k, v in w.items() if k not in ('sizes', 'name')}), fl),
                               'stress_config': w, 'schedule': None, 'finding': {'kind': 'config', 'failure': fl}, 'trace': []})
        shape = 'ws' if w.get('network') == 'ws' else 'std'
        digests.setdefault(shape, {}).setdefault(r['digest'], []).append(r['name'])
    for shape, d in digests.items():
        if len(d) > 1:
            major = max(d.values(), key=len)
            for dg, names in d.items():
                if names is not major:
                    w = byname[names[0]]
                    violations.append({'property': pid, 'signature': 'config:transcript', 'summary': 'C12: the transcript (call -> outcome) under configuration %s differs from the one %d other configurations agree on' % (
                        json.dumps({k: v for k, v in w.items() if k not in ('sizes', 'name')}), len(major)), 'stress_config': w, 'schedule': None, 'finding': {'kind': 'transcript'}, 'trace': []})
    if skipped and len(skipped) > len(work) // 3:
        raise Machinery('too many configurations could not be hosted: ' + '; '.join(skipped[:5]))
    # streams under the configurations that matter to them: body codec (aliasing or not) x server modes; what each end read is kept and re-checked
    scs = []
    for j, (net, codec, extra) in enumerate((('unix', 'alias', {}), ('unix', '', {}), ('frag', 'alias', {'frag': 7}), ('unix', 'alias', {'srvpipe': True}),
                                             ('unix', 'alias', {'srvdirect': True, 'clidirect': True}), ('frag', '', {'poll': True, 'readers': 2, 'frag': 9}))):
        scs.append(dict({'name': 'C12-s%d' % j, 'network': net, 'codec': codec, 'streams': 2, 'pushfirst': j % 3, 'msgs': 12, 'unary': 6, 'end': 'close', 'retain': True,
                         'seed': 77 + seed()}, **extra))
    sres, scr = cf.run_stress(scs, pid + 's', cmd='sstress')
    for cr in scr:
        first = cr['panic'].splitlines()[0] if cr['panic'] else 'crash'
        violations.append({'property': pid, 'signature': 'crash:stream:' + first[:60], 'summary': 'C12: the process crashed in a stream scenario under %s: %s' % (json.dumps(cr['config']), first),
                           'stress_config': cr['config'], 'schedule': None, 'finding': {'kind': 'crash', 'panic': cr['panic']}, 'trace': []})
    for r in sres:
        for fl in (r.get('failures') or [])[:2]:
            w = [x for x in scs if x['name'] == r['name']]
            violations.append({'property': pid, 'signature': 'config:stream:' + ' '.join(fl.split()[:6]), 'summary': 'C12: stream scenario under configuration %s: %s' % (
                json.dumps({k: v for k, v in (w[0] if w else {}).items() if k != 'name'}), fl), 'stress_config': w[0] if w else None, 'schedule': None, 'finding': {'kind': 'config-stream', 'failure': fl}, 'trace': []})
    cov = {'evaluations': len(results) + len(sres), 'distinct_nontrivial': len(results) + len(sres) - len(skipped), 'exhaustive': tier != 'quick' and len(sel) >= len(cfgs),
           'states': res['distinct'], 'transitions': res['states'], 'configurations_in_space': len(cfgs), 'calls': sum(r.get('calls', 0) for r in results),
           'skipped': skipped[:10],
           'rule': ('configurations are the states TLC enumerates from spec/Config.tla (network x TLS x header encoder x body codec x name-or-constructor x poll x server pipelining x server direct I/O x '
                    'context buffer x NoCopy x client pipelining x client direct I/O x buffer size, with the documented exclusions); quick: a greedy pairwise covering array plus 20 random configurations, '
                    'thorough: plus 6000 random ones; each runs the same seeded workload (sizes 0..80000 incl. larger than every buffer, failing calls, all call forms, all handler shapes); every call is '
                    'checked against the expected transcript and the transcript digests of all configurations must agree'),
           'samples': [{k: v for k, v in w.items() if k != 'sizes'} for w in work[:3]]}
    shutil.rmtree(wd, ignore_errors=True)
    return finish(pid, tier, 'exploration', cov, t0, violations, [],
                  ['ws carries one call at a time (reading R9); NoCopy only with handlers that do not keep their arguments; buffer sizes via Options.ClientBufferSize / Server.SetBufferSize',
                   'the poll-mode branch is hosted by the harness listener (fragmenting UNIX socket); real epoll via hslam/netpoll is not exercised here'])

REGISTRY['C12'] = c12_check


# ---------------------------------------------------------------------------
# C11: what user code was handed is never backed by a recycled buffer
BUF_DEVS = {'NoCopyReqArgs': ['req_args'], 'NoCopyReply': ['reply'], 'NoCopyStreamMsg': ['stream_msg_cli', 'stream_msg_srv'],
            'ErrTextAlias': ['error_text'], 'ReleaseBeforeDecode': ['req_args', 'reply']}
# which workload keeps values of which model path
BUF_PATH_WORKLOAD = {'req_args': 'stress retain: handlers keep req.B', 'reply': 'stress retain: callers keep reply.B', 'error_text': 'stress retain: callers keep the error values',
                     'stream_msg_cli': 'sstress retain: the client reader keeps every message', 'stream_msg_srv': 'sstress retain: the stream handler keeps every message'}

def buffers_model(wd, tier):
    big = tier == 'thorough'
    cfg = ('SPECIFICATION Spec\nCONSTANTS Bufs = {1,2%s}\n Conns = {"c1","c2"}\n MaxVals = %d\n MaxGen = 3\n Dev = %s\n'
           'INVARIANTS %s\nPROPERTY GenMonotone\nCHECK_DEADLOCK FALSE\n')
    res = run_tlc(wd, 'Buffers.tla', cfg % ('', 3 if big else 2, '{}', 'UserStable DecodedWhileOwned NoClobberWithoutNoCopy'), ['Buffers.tla'], timeout=1500)
    if not res['complete']:
        raise Machinery('Buffers.tla (intended design) did not check:\n' + res['out'][-2500:])
    devs = {}
    for d, paths in BUF_DEVS.items():
        inv = 'DecodedWhileOwned' if d == 'ReleaseBeforeDecode' else 'NoClobberWithoutNoCopy'
        r = run_tlc(wd, 'Buffers.tla', cfg % ('', 2, '{"%s"}' % d, inv), ['Buffers.tla'], workers=4, timeout=600)
        if inv not in r['violated']:
            raise Machinery('Buffers.tla: deviation %s does not violate %s (the model cannot express the failure it guards against)' % (d, inv))
        devs[d] = {'invariant': inv, 'paths': paths, 'schedule': [a for a, _ in error_trace(r)]}
    import re as _re
    rc = run_tlc(wd, 'BuffersCtx.tla', 'SPECIFICATION CSpec\nCONSTRAINT EmitCtx\nCHECK_DEADLOCK FALSE\n', ['BuffersCtx.tla'], workers=1, timeout=300)
    if not rc['complete']:
        raise Machinery('BuffersCtx.tla did not check:\n' + rc['out'][-1500:])
    cases = []
    for m in _re.finditer(r'^<<"CTX", "(.*)">>$', rc['out'], _re.M):
        j = json.loads(m.group(1).replace('\\"', '"'))
        t = [j['c']['cap'], j['c']['len'], 1 if j['placement'] == 'in_buffer' else 0]
        if t not in cases:
            cases.append(t)
    if len(cases) < 20:
        raise Machinery('BuffersCtx.tla emitted only %d cases' % len(cases))
    return res, devs, cases

def aligned(n):
    if n < 65536:
        p = 64
        while p < n:
            p *= 2
        return p
    return (n + 1023) // 1024 * 1024

def sizes_around(n):
    a = aligned(n)
    s = {0, 1, 20, 600, a + 10, a + 3000}
    for d in (-96, -80, -64, -56, -48, -40, -32, -24, -16, -8, 0, 6, 12, 16, 24):
        s.add(n + d)
    for d in (-40, -30, -20, -10, -4, 0):
        s.add(a + d)
    return sorted(x for x in s if x >= 0)

def c11_workloads(tier, sd, ctxcases):
    big = tier == 'thorough'
    rows = [  # network codec header bufsize extra
        ('unix', 'alias', '', 1000, {}), ('unix', 'alias', '', 0, {}), ('tcp', 'pb', '', 3000, {}), ('inproc', 'code', 'code', 3000, {'ctxbuf': True}),
        ('frag', 'alias', '', 1000, {'poll': True, 'readers': 2, 'frag': 13}), ('frag', 'pb', 'pb', 0, {'poll': True, 'readers': 2, 'frag': 200, 'ctxbuf': True}),
        ('unix', 'alias', '', 5000, {'srvpipe': True, 'clipipe': True}), ('unix', 'alias', '', 70000, {'srvdirect': True, 'clidirect': True}),
        ('http', 'alias', 'json', 1000, {}), ('unix', 'alias', '', 1000, {'nocopy': True}), ('unix', 'alias', '', 1000, {'ctxbuf': True}),
        ('unix', 'msgp', '', 700, {}), ('unix', 'json', '', 1000, {}), ('frag', 'alias', 'code', 3000, {'frag': 5}),
        ('ws', 'alias', '', 1000, {'oneatatime': True, 'forms': 'call,ctx', 'callers': 1}),
    ]
    if big:
        ext = []
        for net in ('unix', 'tcp', 'inproc', 'frag', 'http'):
            for codec in ('alias', 'pb', 'code', 'msgp'):
                for bs in (0, 100, 1000, 3000, 33000, 70000):
                    for extra in ({}, {'ctxbuf': True}, {'srvpipe': True, 'clipipe': True}, {'srvdirect': True, 'clidirect': True}) + (({'poll': True, 'readers': 2, 'frag': 50},) if net == 'frag' else ()):
                        ext.append((net, codec, 'code' if codec == 'code' else '', bs, dict(extra)))
        rows = rows + ext
    work = []
    for i, (net, codec, header, bs, extra) in enumerate(rows):
        w = {'name': 'ret%d' % i, 'network': net, 'codec': codec, 'header': header, 'bufsize': bs, 'conns': 2, 'callers': 3, 'calls': 70 if not big else 50,
             'seed': 1100 + 17 * i + sd, 'failevery': 5, 'missevery': 9, 'retain': True, 'sizes': sizes_around(bs or 65536)}
        w.update(extra)
        if w.get('callers') == 1:
            w['calls'] = 3 * w['calls']
        if codec == 'alias' and not extra.get('oneatatime'):
            w['ctxcases'] = ctxcases
        work.append(w)
    streams = []
    srows = [('unix', 'alias', {}), ('frag', '', {'poll': True, 'readers': 2, 'frag': 7}), ('unix', 'alias', {'srvdirect': True, 'clidirect': True}),
             ('unix', '', {'srvpipe': True}), ('frag', 'alias', {'frag': 3})]
    for i, (net, codec, extra) in enumerate(srows * (4 if big else 1)):
        s = {'name': 'sret%d' % i, 'network': net, 'codec': codec, 'streams': 3, 'pushfirst': i % 3, 'msgs': 15, 'unary': 8, 'end': 'close' if i % 2 == 0 else 'drop',
             'seed': 2200 + 13 * i + sd, 'retain': True}
        s.update(extra)
        streams.append(s)
    return work, streams

def c11_check(pid, tier, replay_file=None):
    t0 = time.time()
    wd = scratch('c11')
    res, devs, ctxcases = buffers_model(wd, tier)
    work, streams = c11_workloads(tier, seed(), ctxcases)
    results, crashes = cf.run_stress(work, pid, shards=16, timeout=3000)
    sresults, scrashes = cf.run_stress(streams, pid + 's', shards=8, timeout=1200, cmd='sstress')
    violations = []
    for cr in crashes + scrashes:
        first = cr['panic'].splitlines()[0] if cr['panic'] else 'crash'
        violations.append({'property': pid, 'signature': 'crash:' + first[:80], 'summary': 'C11 workload crashed the process under %s: %s' % (json.dumps(cr['config']), first),
                           'stress_config': cr['config'], 'schedule': None, 'finding': {'kind': 'crash', 'panic': cr['panic']}, 'trace': []})
    byname = {w['name']: w for w in work + streams}
    skipped = []
    for r in results + sresults:
        w = byname.get(r['name'], {})
        if r.get('skipped'):
            skipped.append('%s: %s' % (r['name'], r['skipped']))
            continue
        for fl in (r.get('failures') or [])[:3]:
            kind = ('retained' if 'kept by' in fl else 'ctxbuffer' if 'context' in fl and 'buffer' in fl else 'payload')
            violations.append({'property': pid, 'signature': kind + ':' + ' '.join(fl.split()[:8]),
                               'summary': 'C11 (%s): %s  [configuration %s]' % (kind, fl, json.dumps({k: v for k, v in w.items() if k not in ('sizes', 'name', 'ctxcases')})),
                               'stress_config': w, 'schedule': None, 'finding': {'kind': kind, 'failure': fl}, 'trace': []})
    if len(skipped) > len(work) // 3:
        raise Machinery('too many configurations could not be hosted: ' + '; '.join(skipped[:5]))
    cov = {'states': res['distinct'], 'transitions': res['states'], 'exhaustive': True, 'model_depth': res['depth'],
           'evaluations': len(results) + len(sresults), 'distinct_nontrivial': len(results) + len(sresults) - len(skipped), 'calls': sum(r.get('calls', 0) for r in results + sresults),
           'context_buffer_cases': len(ctxcases), 'deviations_expressible': {d: v['invariant'] for d, v in devs.items()}, 'path_binding': BUF_PATH_WORKLOAD, 'skipped': skipped[:10],
           'rule': ('spec/Buffers.tla (pooled frame buffers shared by all connections; Recv/Hand/Release; UserStable, DecodedWhileOwned, NoClobberWithoutNoCopy) checked exhaustively for the intended copy rules; '
                    'every deviation of the catalogue violates an invariant (so the model can express the failure); each model path is bound to a workload in which user code keeps what it was handed '
                    '(request arguments in handlers, replies, error values, stream messages on both ends) under aliasing codecs, buffer sizes that are not pool-aligned, payload sizes swept around the '
                    'buffer size and its aligned capacity, several connections sharing the pools, then churn traffic; the verdict is an observed changed byte. spec/BuffersCtx.tla enumerates '
                    'capacity x reply-length cases of the context-buffer placement rule; each runs against the real client with guard bytes around the buffer'),
           'samples': [{k: v for k, v in w.items() if k not in ('sizes', 'ctxcases')} for w in work[:3]]}
    shutil.rmtree(wd, ignore_errors=True)
    return finish(pid, tier, 'exploration', cov, t0, violations, [],
                  ['NoCopy configurations only check what the documentation still promises (client-side values); a handler that frees its context buffer gives it up',
                   'pool reuse is driven by real traffic, not forced: a stale alias is observed when a later frame of the same size class lands in the recycled buffer (made likely by same-size churn on two connections)'])

REGISTRY['C11'] = c11_check


# ---------------------------------------------------------------------------
# C20: Close releases every resource and is idempotent
import lifefam as lf

def c20_check(pid, tier, replay_file=None):
    t0 = time.time()
    big = tier == 'thorough'
    wd = scratch('c20')
    cov = {'states': 0, 'transitions': 0, 'model_runs': [], 'traces_validated_against_impl': 0, 'samples': []}
    violations = []
    scheds = []
    if replay_file:
        scheds = [json.load(open(replay_file))['schedule']]
    else:
        # 1. the intended design, exhaustively
        if not os.environ.get('VERIF_SKIP_MC'):
            cfgs = [('client', lf.consts(dconns=('d1',), pconns=('p1', 'p2'), useclient=True, maxops=3)),
                    ('transport', lf.consts(dconns=('d1', 'd2'), pconns=('p1',), useclient=False, maxops=3))]
            if big:
                cfgs += [('client-2d', lf.consts(dconns=('d1', 'd2'), pconns=('p1', 'p2'), useclient=True, maxops=3)),
                         ('transport-4ops', lf.consts(dconns=('d1', 'd2'), pconns=('p1', 'p2'), useclient=False, maxops=4))]
            for name, c in cfgs:
                r = lf.model_check(wd, c, timeout=3000)
                if r['violated'] or not r['complete']:
                    raise Machinery('Lifecycle.tla (%s): the intended design violates %s\n%s' % (name, r['violated'], r['out'][-2000:]))
                cov['model_runs'].append({'config': name, 'distinct_states': r['distinct'], 'states_generated': r['states'], 'depth': r['depth']})
                cov['states'] += r['distinct']; cov['transitions'] += r['states']
            r = lf.model_check(wd, lf.consts(dconns=('d1',), pconns=('p1',), useclient=False, maxops=2), invariants=[], props=['ListenReturns'], timeout=1500, workers=8)
            if r['violated'] or not r['complete']:
                raise Machinery('Lifecycle.tla: ListenReturns fails in the intended design\n' + r['out'][-2000:])
            cov['model_runs'].append({'config': 'liveness ListenReturns', 'distinct_states': r['distinct'], 'states_generated': r['states']})
        # 2. every deviation of the catalogue: a counterexample in the model, replayed on the real objects with the intended expectations
        cov['deviations'] = {}
        from concurrent.futures import ThreadPoolExecutor
        def one_dev(item):
            d, (uc, inv) = item
            sub = os.path.join(wd, 'dev_' + d)
            os.makedirs(sub, exist_ok=True)
            acts, r = lf.deviation_schedule(sub, d, d)
            if acts is None:
                raise Machinery('Lifecycle.tla: deviation %s does not violate %s (vacuity)' % (d, inv))
            sc = lf.intended_expectations(sub, acts, uc, 'dev_' + d)
            if sc is None:
                raise Machinery('Lifecycle.tla: the counterexample of %s cannot be followed by the intended design' % d)
            return d, inv, sc
        with ThreadPoolExecutor(max_workers=6) as ex:
            for d, inv, sc in ex.map(one_dev, list(lf.DEVS.items())):
                cov['deviations'][d] = {'violates': inv, 'schedule': [(s['a'], s['c']) for s in sc['steps']]}
                scheds.append(sc)
        # 3. behaviours of the intended design (run to their terminal states: everything closed MaxRepeat times)
        n = 150 if big else 40
        k = 0
        for uc, dconns in ((True, ('d1',)), (False, ('d1', 'd2'))):
            for minops in (0, 2, 4):
                scheds += lf.generate(wd, lf.consts(useclient=uc, dconns=dconns, maxops=5), minops, n, 90, 1000 * seed() + k, '%s%d' % ('k' if uc else 't', minops))
                k += 1
    results, crashes = lf.replay(scheds, pid, shards=16, timeout=1800)
    byname = {s['name']: s for s in scheds}
    # a schedule that failed is run once more alone, with a longer settle bound, before it counts
    bad = [r for r in results if r.get('failures') or r.get('leaks')]
    if bad and not replay_file:
        again, c2 = lf.replay([dict(byname[r['name']]) for r in bad], pid + 'r', shards=min(16, len(bad)), timeout=1800, settle_ms=10000)
        crashes += c2
        confirmed = {r['name'] for r in again if r.get('failures') or r.get('leaks')}
        cov['rerun'] = {'first_pass_failures': len(bad), 'confirmed': len(confirmed)}
        results = [r for r in results if r['name'] not in {b['name'] for b in bad}] + again
    for cr in crashes:
        first = cr['panic'].splitlines()[0] if cr['panic'] else 'crash'
        violations.append({'property': pid, 'signature': 'crash:' + first[:80], 'summary': 'C20: the process crashed while replaying %s: %s' % ([(s['a'], s['c']) for s in (cr['schedule'] or {}).get('steps', [])], first),
                           'schedule': cr['schedule'], 'finding': {'kind': 'crash', 'panic': cr['panic']}, 'trace': []})
    for r in results:
        sc = byname.get(r['name'])
        for fl in (r.get('failures') or [])[:1]:
            step = sc['steps'][r['steps'] - 1] if sc and r['steps'] else {'a': '?', 'c': ''}
            violations.append({'property': pid, 'signature': 'lifecycle:%s' % step['a'],
                               'summary': 'C20: history %s: %s' % ([(s['a'], s['c']) for s in sc['steps'][:r['steps']]], fl), 'schedule': sc, 'finding': {'kind': 'mismatch', 'failure': fl}, 'trace': []})
        if r.get('leaks'):
            violations.append({'property': pid, 'signature': 'lifecycle:leak', 'summary': 'C20: after history %s (every participant closed, handlers returned) this is left: %s' % (
                [(s['a'], s['c']) for s in sc['steps']], '; '.join(r['leaks'][:4])), 'schedule': sc, 'finding': {'kind': 'leak', 'leaks': r['leaks']}, 'trace': []})
    # one violation per signature and failing action is enough to report
    seen, uniq = set(), []
    for v in violations:
        key = (v['signature'], v['summary'][-120:])
        if v['signature'] in seen and len(uniq) >= 6:
            continue
        seen.add(v['signature']); uniq.append(v)
    cov['traces_validated_against_impl'] = len(results)
    if not replay_file:
        # the pool of a Transport with retired (idle) connections at Close: schedules of Transport.tla, Close with 0..MaxIdle idle entries
        tv, tcov, tass = trans_core(pid, TRANS_PLANS['C20'], tier, None, models=False)
        uniq.extend(tv[:4])
        cov['transport_layer'] = {k: tcov[k] for k in ('schedules_replayed', 'traces_validated_against_impl', 'trace_events')}
        cov['traces_validated_against_impl'] += tcov['traces_validated_against_impl']
    cov['steps_replayed'] = sum(r.get('steps', 0) for r in results)
    cov['terminal_histories'] = sum(1 for s in scheds if s.get('terminal'))
    cov['samples'] = [[(s['a'], s['c']) for s in sc['steps']] for sc in scheds[-3:]] or ['none']
    cov['rule'] = ('spec/Lifecycle.tla checked exhaustively (all interleavings of user-level steps with the library\'s internal steps, every Close up to twice, in any order); every deviation of the catalogue '
                   'violates its invariant and its counterexample is replayed on the real objects; behaviours of the intended design, generated by TLC simulation of LifecycleGen to their terminal states, '
                   'are replayed step by step on a real Server / Conns / Transport / Client over a counting UNIX socket; after every step the projection of the real objects (goroutine profile by function, '
                   'open sockets per connection, Close return values, Listen\'s return) must become equal to the projection of the model state, and after the last step no goroutine with a frame of '
                   'hslam/rpc, hslam/scheduler or hslam/socket and no open socket may remain')
    shutil.rmtree(wd, ignore_errors=True)
    return finish(pid, tier, 'model_checking', cov, t0, uniq, [],
                  ['R10: poll servers excluded; Server.Close only once Listen is serving; no user call is started on a Transport/Client after its Close',
                   'the Client\'s RoundTripper is a harness wrapper around the real Transport: unscheduled detector probes are answered ErrDial without touching the Transport, scheduled ones wait at a gate and then run the real Transport.Ping',
                   'handlers are held by harness gates (Release = the user\'s handler returns); "peers gone" for the server means Listen\'s cleanup cut the connections or the client ends were closed',
                   'a failing history is re-run alone with a 10 s settle bound before it counts'])

REGISTRY['C20'] = c20_check
