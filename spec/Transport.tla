------------------------------- MODULE Transport -------------------------------
(******************************************************************************)
(* The connection pool of hslam/rpc's Transport (transport.go): per address an  *)
(* active list with a round-robin cursor and an idle FIFO queue with capacity;  *)
(* getConn's three paths, dial results, the dead mark set by a synchronous call *)
(* that failed with ErrShutdown, one housekeeping pass (retire / overflow close *)
(* / idle expiry / ping), CloseIdleConnections, Close, an explicit clock, and    *)
(* servers that go down and come back.  Callers are modelled from getConn to the *)
(* return of their call, with the registration of the call on the connection as  *)
(* a step of its own (that window is where housekeeping races with callers).     *)
(*                                                                            *)
(* Dev: deviations from the intended design (Dev = {} is what is verified);     *)
(* the names double as the catalogue of realistic code changes.                 *)
(******************************************************************************)
EXTENDS Integers, Sequences, FiniteSets, TLC

CONSTANTS
    Addrs,        \* addresses
    ConnIds,      \* connection identifiers (fresh one per successful dial)
    Callers,      \* concurrent callers
    MaxConns,     \* MaxConnsPerHost (already normalised: >= 1)
    MaxIdle,      \* MaxIdleConnsPerHost (already normalised: 1..MaxConns)
    KeepAlive, IdleTO,   \* in clock units
    MaxClock,     \* the clock is bounded so that exhaustive runs terminate
    MaxCalls,     \* calls each caller may make
    MaxKills,     \* budget of server kills
    Dev

Deviations == { "NoAliveCheckOnIdle",    \* the no-entry path hands out an idle connection without looking at its dead mark (code before fix D8)
                "IdleCloseIgnoresBusy",  \* idle expiry / CloseIdleConnections close idle-queue entries with calls in flight (before fix D9)
                "RetireBusy",            \* retire does not look at NumCalls
                "CloseIdleBusy",         \* CloseIdleConnections closes active connections with calls in flight
                "DialNoLimit",           \* append path dials although the pool is full
                "EnqueueNoLimit",        \* idle enqueue ignores the capacity
                "OverflowNotClosed",     \* a retired connection that does not fit the idle queue is dropped open
                "WrongAddress",          \* idle connection of another address handed out
                "NoMarkDead",            \* ErrShutdown does not mark the connection
                "AppendIdleNoCheck",     \* the append path hands out an idle connection without looking at its dead mark
                "RoundRobinNoCheck",     \* the round-robin path hands out a connection carrying the dead mark
                "ReplaceKeepsDead",     \* a dead connection is re-dialed but the dead one is handed out (the fresh one is dropped)
                "RetireDropsDead",      \* retire closes and drops a connection already marked dead instead of parking it (harmless by itself;
                                        \* combined with AppendIdleNoCheck it forces the "died while parked" path)
                "ExpireChecksRear",      \* idle expiry looks at the calls of the rear entry but closes the front one
                "CloseHalfIdle",         \* Close walks the idle queue with a shrinking bound and closes only the first half of it
                "DeadlineMarksDead",     \* a call abandoned at its context's deadline marks the (healthy) connection dead and closes it
                "AbandonFreesConn" }     \* a call abandoned at its context's deadline stops counting as a call on its connection at once,
                                         \* although the server is still working on it

ASSUME Dev \subseteq Deviations
DevChoice(d) == IF d \in Dev THEN BOOLEAN ELSE {FALSE}
NoConn == 0
ASSUME NoConn \notin ConnIds

VARIABLES
    conns,     \* conns[a]: the active list (sequence of connection ids); <<>> = no entry
    cursor,    \* cursor[a]: round-robin cursor of the entry
    idle,      \* idle[a]: the idle FIFO queue
    addrOf,    \* addrOf[c]: address c was dialed to (NoAddr if unused)
    alive,     \* alive[c]: persistConn.alive (FALSE once a synchronous call saw ErrShutdown)
    open,      \* open[c]: socket dialed and not yet closed by the Transport/caller
    broken,    \* broken[c]: the peer is gone (server killed after the dial)
    last,      \* last[c]: lastTime
    busy,      \* busy[c]: calls registered on c and not yet answered
    used,      \* set of connection ids consumed by dials
    up,        \* up[a]: server reachable
    clock,     \* real time
    tnow,      \* Transport.now: the time of the last housekeeping pass (what lastTime is refreshed to)
    closed,    \* Transport.Close was called
    cst,       \* cst[k]: caller state  "idle" / "got" / "inflight" / "abandoned" (returned at its deadline, request still with the server)
    cconn,     \* cconn[k]: connection the caller holds
    caddr,     \* caddr[k]: address the caller asked for
    ncalls,    \* ncalls[k]: calls made so far
    nkills,
    \* ---- history ----
    failsSince \* failsSince[k]: consecutive ErrShutdown failures of caller k since the last restart of its address (recovery bound)

vars == <<conns, cursor, idle, addrOf, alive, open, broken, last, busy, used, up, clock, tnow, closed,
          cst, cconn, caddr, ncalls, nkills, failsSince>>

NoAddr == "none"
Range(s) == {s[i] : i \in 1..Len(s)}
RemoveAt(s, i) == SubSeq(s, 1, i-1) \o SubSeq(s, i+1, Len(s))
Pooled(a) == Range(conns[a]) \cup Range(idle[a])

Init ==
    /\ conns = [a \in Addrs |-> <<>>]
    /\ cursor = [a \in Addrs |-> 0]
    /\ idle = [a \in Addrs |-> <<>>]
    /\ addrOf = [c \in ConnIds |-> NoAddr]
    /\ alive = [c \in ConnIds |-> FALSE]
    /\ open = [c \in ConnIds |-> FALSE]
    /\ broken = [c \in ConnIds |-> FALSE]
    /\ last = [c \in ConnIds |-> 0]
    /\ busy = [c \in ConnIds |-> 0]
    /\ used = {}
    /\ up = [a \in Addrs |-> TRUE]
    /\ clock = 0
    /\ tnow = 0
    /\ closed = FALSE
    /\ cst = [k \in Callers |-> "idle"]
    /\ cconn = [k \in Callers |-> NoConn]
    /\ caddr = [k \in Callers |-> NoAddr]
    /\ ncalls = [k \in Callers |-> 0]
    /\ nkills = 0
    /\ failsSince = [k \in Callers |-> 0]

--------------------------------------------------------------------------------
\* Dial (newPersistConn): a fresh connection id, alive, lastTime = now.
Fresh == CHOOSE c \in ConnIds \ used : TRUE
CanDial(a) == up[a] /\ ConnIds \ used # {}

DialInto(c, a) ==
    /\ addrOf' = [addrOf EXCEPT ![c] = a]
    /\ alive' = [alive EXCEPT ![c] = TRUE]
    /\ open' = [open EXCEPT ![c] = TRUE]
    /\ last' = [last EXCEPT ![c] = clock]
    /\ used' = used \cup {c}

HandOut(k, a, c) ==
    /\ cst' = [cst EXCEPT ![k] = "got"]
    /\ cconn' = [cconn EXCEPT ![k] = c]
    /\ caddr' = [caddr EXCEPT ![k] = a]
    /\ ncalls' = [ncalls EXCEPT ![k] = @ + 1]

\* ---- getConn, path 1: an entry exists and has room: take an idle connection (if its dead mark
\*      is not set) or dial; append.
GetAppendIdle(k, a, dNoCheck) ==
    /\ cst[k] = "idle" /\ ncalls[k] < MaxCalls /\ ~closed
    /\ conns[a] # <<>> /\ Len(conns[a]) < MaxConns /\ idle[a] # <<>>
    /\ LET c == Head(idle[a]) IN
       /\ (alive[c] \/ dNoCheck)
       /\ idle' = [idle EXCEPT ![a] = Tail(@)]
       /\ last' = [last EXCEPT ![c] = tnow]        \* lastTime = t.now (the last pass, not the wall clock)
       /\ conns' = [conns EXCEPT ![a] = Append(@, c)]
       /\ HandOut(k, a, c)
    /\ UNCHANGED <<cursor, addrOf, alive, open, broken, busy, used, up, clock, tnow, closed, nkills, failsSince>>

\* the dequeued idle connection carries the dead mark: it is dropped and a new one is dialed
GetAppendIdleDead(k, a, dKeepDead) ==
    /\ cst[k] = "idle" /\ ncalls[k] < MaxCalls /\ ~closed
    /\ conns[a] # <<>> /\ Len(conns[a]) < MaxConns /\ idle[a] # <<>>
    /\ ~alive[Head(idle[a])]
    /\ idle' = [idle EXCEPT ![a] = Tail(@)]
    /\ IF CanDial(a)
         THEN LET c == Fresh
                  h == IF dKeepDead THEN Head(idle[a]) ELSE c IN     \* deviation: the freshly dialed one is dropped
              /\ DialInto(c, a)
              /\ conns' = [conns EXCEPT ![a] = Append(@, h)]
              /\ HandOut(k, a, h)
              /\ UNCHANGED failsSince
         ELSE /\ UNCHANGED <<addrOf, alive, open, last, used, conns, cst, cconn, caddr, failsSince>>
              /\ ncalls' = [ncalls EXCEPT ![k] = @ + 1]     \* the call fails with ErrDial
    /\ UNCHANGED <<cursor, broken, busy, up, clock, tnow, closed, nkills>>

GetAppendDial(k, a, dNoLimit) ==
    /\ cst[k] = "idle" /\ ncalls[k] < MaxCalls /\ ~closed
    /\ conns[a] # <<>> /\ (Len(conns[a]) < MaxConns \/ dNoLimit) /\ (idle[a] = <<>> \/ dNoLimit)
    /\ IF CanDial(a)
         THEN LET c == Fresh IN
              /\ DialInto(c, a)
              /\ conns' = [conns EXCEPT ![a] = Append(@, c)]
              /\ HandOut(k, a, c)
         ELSE /\ UNCHANGED <<addrOf, alive, open, last, used, conns, cst, cconn, caddr>>
              /\ ncalls' = [ncalls EXCEPT ![k] = @ + 1]
    /\ UNCHANGED <<cursor, idle, broken, busy, up, clock, tnow, closed, nkills, failsSince>>

\* ---- path 2: the entry is full: round robin; a connection carrying the dead mark is replaced.
NextCursor(a) == IF cursor[a] + 1 > Len(conns[a]) - 1 THEN 0 ELSE cursor[a] + 1

GetRoundRobin(k, a, dNoCheck) ==
    /\ cst[k] = "idle" /\ ncalls[k] < MaxCalls /\ ~closed
    /\ conns[a] # <<>> /\ Len(conns[a]) >= MaxConns
    /\ LET i == NextCursor(a)
           c == conns[a][i + 1] IN
       /\ cursor' = [cursor EXCEPT ![a] = i]
       /\ IF alive[c] \/ dNoCheck
            THEN /\ HandOut(k, a, c)
                 /\ UNCHANGED <<conns, addrOf, alive, open, last, used>>
            ELSE IF CanDial(a)
              THEN LET n == Fresh IN
                   /\ DialInto(n, a)
                   /\ conns' = [conns EXCEPT ![a][i + 1] = n]
                   /\ HandOut(k, a, n)
              ELSE /\ UNCHANGED <<conns, addrOf, alive, open, last, used, cst, cconn, caddr>>
                   /\ ncalls' = [ncalls EXCEPT ![k] = @ + 1]
    /\ UNCHANGED <<idle, broken, busy, up, clock, tnow, closed, nkills, failsSince>>

\* ---- path 3: no entry: take an idle connection (intended: only if not marked dead) or dial.
GetNoEntryIdle(k, a, dNoCheck, dWrongAddr) ==
    /\ cst[k] = "idle" /\ ncalls[k] < MaxCalls /\ ~closed
    /\ conns[a] = <<>>
    /\ \E b \in (IF dWrongAddr THEN Addrs ELSE {a}) :
         /\ idle[b] # <<>>
         /\ LET c == Head(idle[b]) IN
            /\ (alive[c] \/ dNoCheck)
            /\ idle' = [idle EXCEPT ![b] = Tail(@)]
            /\ last' = [last EXCEPT ![c] = clock]
            /\ conns' = [conns EXCEPT ![a] = <<c>>]
            /\ cursor' = [cursor EXCEPT ![a] = 0]
            /\ HandOut(k, a, c)
    /\ UNCHANGED <<addrOf, alive, open, broken, busy, used, up, clock, tnow, closed, nkills, failsSince>>

GetNoEntryIdleDead(k, a) ==      \* intended design: a dead idle connection is dropped, a new one dialed
    /\ cst[k] = "idle" /\ ncalls[k] < MaxCalls /\ ~closed
    /\ conns[a] = <<>> /\ idle[a] # <<>> /\ ~alive[Head(idle[a])]
    /\ idle' = [idle EXCEPT ![a] = Tail(@)]
    /\ IF CanDial(a)
         THEN LET c == Fresh IN
              /\ DialInto(c, a)
              /\ conns' = [conns EXCEPT ![a] = <<c>>]
              /\ cursor' = [cursor EXCEPT ![a] = 0]
              /\ HandOut(k, a, c)
         ELSE /\ UNCHANGED <<addrOf, alive, open, last, used, conns, cursor, cst, cconn, caddr>>
              /\ ncalls' = [ncalls EXCEPT ![k] = @ + 1]
    /\ UNCHANGED <<broken, busy, up, clock, tnow, closed, nkills, failsSince>>

GetNoEntryDial(k, a) ==
    /\ cst[k] = "idle" /\ ncalls[k] < MaxCalls /\ ~closed
    /\ conns[a] = <<>> /\ idle[a] = <<>>
    /\ IF CanDial(a)
         THEN LET c == Fresh IN
              /\ DialInto(c, a)
              /\ conns' = [conns EXCEPT ![a] = <<c>>]
              /\ cursor' = [cursor EXCEPT ![a] = 0]
              /\ HandOut(k, a, c)
         ELSE /\ UNCHANGED <<addrOf, alive, open, last, used, conns, cursor, cst, cconn, caddr>>
              /\ ncalls' = [ncalls EXCEPT ![k] = @ + 1]
    /\ UNCHANGED <<idle, broken, busy, up, clock, tnow, closed, nkills, failsSince>>

--------------------------------------------------------------------------------
\* The caller's call on the connection it was handed.

\* send(): the call registers (NumCalls > 0 from here) unless the connection was closed meanwhile.
Register(k, dNoMark) ==
    /\ cst[k] = "got"
    /\ LET c == cconn[k] IN
       IF open[c] /\ ~broken[c]
         THEN /\ busy' = [busy EXCEPT ![c] = @ + 1]
              /\ cst' = [cst EXCEPT ![k] = "inflight"]
              /\ UNCHANGED <<alive, open, failsSince, cconn>>
         ELSE \* refused at once with ErrShutdown (closed, or its reader saw the peer go): the caller marks
              \* the connection dead and closes it
              /\ cst' = [cst EXCEPT ![k] = "idle"]
              /\ alive' = IF dNoMark THEN alive ELSE [alive EXCEPT ![c] = FALSE]
              /\ open' = IF dNoMark THEN open ELSE [open EXCEPT ![c] = FALSE]
              \* (only a failure on a connection that died counts towards the recovery bound: one the user closed under the
              \*  caller - CloseIdleConnections / Close between getConn and send - can be repeated by the user at will)
              /\ failsSince' = [failsSince EXCEPT ![k] = IF broken[c] THEN @ + 1 ELSE @]
              /\ cconn' = [cconn EXCEPT ![k] = NoConn]
              /\ UNCHANGED busy
    /\ UNCHANGED <<conns, cursor, idle, addrOf, broken, last, used, up, clock, tnow, closed, caddr, ncalls, nkills>>

\* the call returns: success if the connection is healthy, ErrShutdown if it is broken or was
\* closed under the call; lastTime = t.now; ErrShutdown marks the connection dead and closes it.
Return(k, dNoMark) ==
    /\ cst[k] = "inflight"
    /\ LET c == cconn[k]
           ok == open[c] /\ ~broken[c] IN
       /\ busy' = [busy EXCEPT ![c] = @ - 1]
       /\ last' = [last EXCEPT ![c] = tnow]        \* conn.lastTime = t.now
       /\ cst' = [cst EXCEPT ![k] = "idle"]
       /\ cconn' = [cconn EXCEPT ![k] = NoConn]
       /\ IF ok
            THEN /\ failsSince' = [failsSince EXCEPT ![k] = 0]
                 /\ UNCHANGED <<alive, open>>
            ELSE /\ failsSince' = [failsSince EXCEPT ![k] = IF broken[c] THEN @ + 1 ELSE @]
                 /\ alive' = IF dNoMark THEN alive ELSE [alive EXCEPT ![c] = FALSE]
                 /\ open' = IF dNoMark THEN open ELSE [open EXCEPT ![c] = FALSE]
    /\ UNCHANGED <<conns, cursor, idle, addrOf, broken, used, up, clock, tnow, closed, caddr, ncalls, nkills>>

\* CallWithContext: the caller's context ends before the answer. The caller returns the context's error at once; the
\* connection is healthy and stays pooled (the abandoned call is discarded when its answer arrives).
\* CallWithContext: the caller's context ends while the call is in flight. The caller returns at once; the request is still with
\* the server, so the call keeps counting as a call on its connection (NumCalls) until its late answer has been read and
\* discarded: housekeeping must go on sparing that connection.
Expire(k, dMarkDead) ==
    /\ cst[k] = "inflight"
    /\ LET c == cconn[k] IN
       /\ open[c] /\ ~broken[c]
       /\ last' = [last EXCEPT ![c] = tnow]
       /\ IF dMarkDead
            THEN /\ busy' = [busy EXCEPT ![c] = @ - 1]
                 /\ cst' = [cst EXCEPT ![k] = "idle"]
                 /\ cconn' = [cconn EXCEPT ![k] = NoConn]
                 /\ alive' = [alive EXCEPT ![c] = FALSE]
                 /\ open' = [open EXCEPT ![c] = FALSE]
            ELSE /\ busy' = IF "AbandonFreesConn" \in Dev THEN [busy EXCEPT ![c] = @ - 1] ELSE busy
                 /\ cst' = [cst EXCEPT ![k] = "abandoned"]
                 /\ UNCHANGED <<cconn, alive, open>>
    /\ UNCHANGED <<conns, cursor, idle, addrOf, broken, used, up, clock, tnow, closed, caddr, ncalls, nkills, failsSince>>

\* the late answer of an abandoned call has been read (or its connection has ended): the call no longer counts
LateAnswer(k) ==
    /\ cst[k] = "abandoned"
    /\ LET c == cconn[k] IN
       busy' = IF "AbandonFreesConn" \in Dev THEN busy ELSE [busy EXCEPT ![c] = @ - 1]
    /\ cst' = [cst EXCEPT ![k] = "idle"]
    /\ cconn' = [cconn EXCEPT ![k] = NoConn]
    /\ UNCHANGED <<conns, cursor, idle, addrOf, alive, open, broken, last, used, up, clock, tnow, closed, caddr, ncalls, nkills, failsSince>>

--------------------------------------------------------------------------------
\* Housekeeping: one pass of run() (atomic under connsMu; NumCalls is read per connection).

Stale(c) == last[c] + KeepAlive < clock
Expired(c) == last[c] + IdleTO < clock

\* result of retiring the stale, unused connections of address a, one at a time in list order
RECURSIVE RetirePass(_, _, _, _, _, _)
RetirePass(act, idl, opn, i, dBusy, dNoLimit) ==
    \* act: active list so far, idl: idle queue, opn: open function; i: index into act
    IF i > Len(act) THEN <<act, idl, opn>>
    ELSE LET c == act[i] IN
         IF Stale(c) /\ (busy[c] = 0 \/ dBusy)
           THEN IF "RetireDropsDead" \in Dev /\ ~alive[c]
                  THEN RetirePass(RemoveAt(act, i), idl, [opn EXCEPT ![c] = FALSE], i, dBusy, dNoLimit)
                ELSE IF Len(idl) < MaxIdle \/ dNoLimit
                  THEN RetirePass(RemoveAt(act, i), Append(idl, c), opn, i, dBusy, dNoLimit)
                  ELSE RetirePass(RemoveAt(act, i), idl,
                                  IF "OverflowNotClosed" \in Dev THEN opn ELSE [opn EXCEPT ![c] = FALSE],
                                  i, dBusy, dNoLimit)
           ELSE RetirePass(act, idl, opn, i + 1, dBusy, dNoLimit)

\* idle expiry as coded: `length` rounds; each round tests the *rear* entry's lastTime and
\* dequeues the *front* one: closed if it carries no call, otherwise put back at the rear with
\* its lastTime refreshed (intended design; before fix D9 it was closed regardless).
RECURSIVE ExpirePass(_, _, _, _, _)
ExpirePass(idl, opn, lst, n, dBusy) ==
    IF n = 0 \/ idl = <<>> THEN <<idl, opn, lst>>
    ELSE IF lst[idl[Len(idl)]] + IdleTO < clock
           THEN IF (IF "ExpireChecksRear" \in Dev THEN busy[idl[Len(idl)]] = 0 ELSE busy[Head(idl)] = 0) \/ dBusy
                  THEN ExpirePass(Tail(idl), [opn EXCEPT ![Head(idl)] = FALSE], lst, n - 1, dBusy)
                  ELSE ExpirePass(Append(Tail(idl), Head(idl)), opn, [lst EXCEPT ![Head(idl)] = clock], n - 1, dBusy)
           ELSE ExpirePass(idl, opn, lst, n - 1, dBusy)

Tick(dRetireBusy, dEnqNoLimit, dIdleBusy) ==
    /\ ~closed
    /\ tnow' = clock
    /\ LET \* (open and lastTime are threaded through the addresses one after the other)
           RECURSIVE Thread(_, _, _)
           Thread(as, opn, lst) ==
               IF as = {} THEN [res |-> [a \in {} |-> <<>>], opn |-> opn, lst |-> lst]
               ELSE LET a == CHOOSE x \in as : TRUE
                        r == RetirePass(conns[a], idle[a], opn, 1, dRetireBusy, dEnqNoLimit)
                        e == ExpirePass(r[2], r[3], lst, Len(r[2]), dIdleBusy)
                        rest == Thread(as \ {a}, e[2], e[3])
                    IN [res |-> [x \in (DOMAIN rest.res) \cup {a} |-> IF x = a THEN <<r[1], e[1]>> ELSE rest.res[x]],
                        opn |-> rest.opn, lst |-> rest.lst]
           t == Thread(Addrs, open, last)
       IN
       /\ conns' = [a \in Addrs |-> t.res[a][1]]
       /\ idle' = [a \in Addrs |-> t.res[a][2]]
       /\ open' = t.opn
       /\ last' = t.lst
       /\ cursor' = [a \in Addrs |-> IF t.res[a][1] = <<>> THEN 0 ELSE cursor[a]]
    /\ UNCHANGED <<addrOf, alive, broken, busy, used, up, clock, closed, cst, cconn, caddr, ncalls, nkills, failsSince>>

\* CloseIdleConnections: active connections without calls, and (intended) idle ones without calls.
CloseIdle(dActiveBusy, dIdleBusy) ==
    /\ ~closed
    /\ LET keepA(a) == SelectSeq(conns[a], LAMBDA c : busy[c] > 0 /\ ~dActiveBusy)
           keepI(a) == SelectSeq(idle[a], LAMBDA c : busy[c] > 0 /\ ~dIdleBusy)
           gone == UNION {(Range(conns[a]) \ Range(keepA(a))) \cup (Range(idle[a]) \ Range(keepI(a))) : a \in Addrs} IN
       /\ conns' = [a \in Addrs |-> keepA(a)]
       /\ idle' = [a \in Addrs |-> keepI(a)]
       /\ open' = [c \in ConnIds |-> IF c \in gone THEN FALSE ELSE open[c]]
       /\ cursor' = [a \in Addrs |-> IF keepA(a) = <<>> THEN 0 ELSE cursor[a]]
    /\ UNCHANGED <<addrOf, alive, broken, last, busy, used, up, clock, tnow, closed, cst, cconn, caddr, ncalls, nkills, failsSince>>

Close ==
    /\ ~closed
    /\ closed' = TRUE
    /\ LET skipped == IF "CloseHalfIdle" \in Dev
                       THEN UNION {{idle[a][i] : i \in ((Len(idle[a]) + 1) \div 2 + 1)..Len(idle[a])} : a \in Addrs} ELSE {} IN
       open' = [c \in ConnIds |-> IF (\E a \in Addrs : c \in Pooled(a)) /\ c \notin skipped THEN FALSE ELSE open[c]]
    /\ conns' = [a \in Addrs |-> <<>>]
    /\ idle' = [a \in Addrs |-> <<>>]
    /\ UNCHANGED <<cursor, addrOf, alive, broken, last, busy, used, up, clock, tnow, cst, cconn, caddr, ncalls, nkills, failsSince>>

--------------------------------------------------------------------------------
\* Environment.
Advance ==
    /\ clock < MaxClock
    /\ clock' = clock + 1
    /\ UNCHANGED <<conns, cursor, idle, addrOf, alive, open, broken, last, busy, used, up, tnow, closed,
                   cst, cconn, caddr, ncalls, nkills, failsSince>>

\* The server process dies: every connection to it ends (its client's reader sees EOF). Calls in flight
\* on those connections fail with ErrShutdown at once (their callers mark the connection dead and close
\* it); pooled connections without calls stay in the pool, broken, until a call is refused on them.
\* the connections in S end (their client's reader sees EOF)
\* (abandoned calls on them are swept with everything else in the table: nobody waits for them any more)
Break(S) ==
    LET hit == {k \in Callers : cst[k] = "inflight" /\ cconn[k] \in S}
        gone == {k \in Callers : cst[k] = "abandoned" /\ cconn[k] \in S}
        hc == {cconn[k] : k \in hit} IN
       /\ broken' = [c \in ConnIds |-> broken[c] \/ c \in S]
       /\ cst' = [k \in Callers |-> IF k \in hit \cup gone THEN "idle" ELSE cst[k]]
       /\ cconn' = [k \in Callers |-> IF k \in hit \cup gone THEN NoConn ELSE cconn[k]]
       /\ failsSince' = [k \in Callers |-> IF k \in hit THEN failsSince[k] + 1 ELSE failsSince[k]]
       /\ busy' = [c \in ConnIds |-> IF c \in S THEN 0 ELSE busy[c]]
       /\ alive' = [c \in ConnIds |-> IF c \in hc THEN FALSE ELSE alive[c]]
       /\ open' = [c \in ConnIds |-> IF c \in hc THEN FALSE ELSE open[c]]
       /\ last' = [c \in ConnIds |-> IF c \in hc THEN tnow ELSE last[c]]
Kill(a) ==
    /\ up[a] /\ nkills < MaxKills
    /\ nkills' = nkills + 1
    /\ up' = [up EXCEPT ![a] = FALSE]
    /\ Break({c \in ConnIds : addrOf[c] = a /\ open[c]})
    /\ UNCHANGED <<conns, cursor, idle, addrOf, used, clock, tnow, closed, caddr, ncalls>>
\* One connection ends while its server stays up (idle timeout at the peer, a network drop): the usual way a pooled
\* connection dies.  A caller that retried on its own would reach the same, live, server again.
Drop(c) ==
    /\ c \in used /\ open[c] /\ ~broken[c] /\ up[addrOf[c]] /\ nkills < MaxKills
    /\ nkills' = nkills + 1
    /\ Break({c})
    /\ UNCHANGED <<conns, cursor, idle, addrOf, used, clock, tnow, closed, caddr, ncalls, up>>

Restart(a) ==
    /\ ~up[a]
    /\ up' = [up EXCEPT ![a] = TRUE]
    /\ failsSince' = [k \in Callers |-> 0]
    /\ UNCHANGED <<conns, cursor, idle, addrOf, alive, open, broken, last, busy, used, clock, tnow, closed,
                   cst, cconn, caddr, ncalls, nkills>>

GetConn(k, a) ==
    \/ \E d \in DevChoice("AppendIdleNoCheck") : GetAppendIdle(k, a, d)
    \/ \E d \in DevChoice("ReplaceKeepsDead") : GetAppendIdleDead(k, a, d)
    \/ \E d \in DevChoice("DialNoLimit") : GetAppendDial(k, a, d)
    \/ \E d \in DevChoice("RoundRobinNoCheck") : GetRoundRobin(k, a, d)
    \/ \E d1 \in DevChoice("NoAliveCheckOnIdle") : \E d2 \in DevChoice("WrongAddress") : GetNoEntryIdle(k, a, d1, d2)
    \/ GetNoEntryIdleDead(k, a) \/ GetNoEntryDial(k, a)

Next ==
    \/ \E k \in Callers : \E a \in Addrs : GetConn(k, a)
    \/ \E k \in Callers : \E d \in DevChoice("NoMarkDead") : Register(k, d)
    \/ \E k \in Callers : \E d \in DevChoice("NoMarkDead") : Return(k, d)
    \/ \E k \in Callers : \E d \in DevChoice("DeadlineMarksDead") : Expire(k, d)
    \/ \E k \in Callers : LateAnswer(k)
    \/ \E d1 \in DevChoice("RetireBusy") : \E d2 \in DevChoice("EnqueueNoLimit") : \E d3 \in DevChoice("IdleCloseIgnoresBusy") : Tick(d1, d2, d3)
    \/ \E d1 \in DevChoice("CloseIdleBusy") : \E d2 \in DevChoice("IdleCloseIgnoresBusy") : CloseIdle(d1, d2)
    \/ Close
    \/ Advance
    \/ \E a \in Addrs : Kill(a) \/ Restart(a)
    \/ \E c \in ConnIds : Drop(c)

Spec == Init /\ [][Next]_vars

--------------------------------------------------------------------------------
\* ============================ PROPERTIES =================================
\* ---- C13
PoolBound == \A a \in Addrs : Len(conns[a]) + Len(idle[a]) <= MaxConns
IdleBound == \A a \in Addrs : Len(idle[a]) <= MaxIdle
\* sockets held open to one address: pooled ones plus those a caller still holds after they were
\* dropped from the pool; connections already marked dead (close in progress) are not counted (R2)
OpenBound == \A a \in Addrs : Cardinality({c \in ConnIds : open[c] /\ alive[c] /\ addrOf[c] = a /\ c \in Pooled(a)}) <= MaxConns
NoDuplicates == \A a \in Addrs : \A i, j \in 1..Len(conns[a]) : i # j => conns[a][i] # conns[a][j]
PooledDisjoint == \A a \in Addrs : Range(conns[a]) \cap Range(idle[a]) = {}
NoLeak ==    \* an open, live connection is pooled or held by a caller (nothing is dropped open)
    \A c \in ConnIds : open[c] /\ alive[c] /\ ~closed =>
        \/ \E a \in Addrs : c \in Pooled(a)
        \/ \E k \in Callers : cconn[k] = c

ClosedAllShut == closed => \A c \in ConnIds : ~open[c]      \* C15 / C20: Close leaves no connection of the pool open

\* ---- C14
RightAddress ==     \* a caller asking for address a is handed a connection dialed to a
    [][\A k \in Callers : (cst[k] = "idle" /\ cst'[k] = "got") => addrOf'[cconn'[k]] = caddr'[k]]_vars
PooledRightAddress == \A a \in Addrs : \A c \in Pooled(a) : addrOf[c] = a
\* a connection marked dead (a synchronous call on it failed with ErrShutdown) is never handed out again
NoDeadHandout ==
    [][\A k \in Callers : (cst[k] = "idle" /\ cst'[k] = "got") => alive[cconn'[k]] \/ ~(cconn'[k] \in used)]_vars
\* with the server reachable a sequential caller sees at most one failure per pooled connection
RecoveryBound == \A k \in Callers : failsSince[k] <= MaxConns + MaxIdle + 1

\* ---- C15
\* housekeeping (tick, CloseIdleConnections) never closes a connection with calls in flight
SpareBusy ==
    [][\A c \in ConnIds : (open[c] /\ ~open'[c] /\ busy[c] > 0) => (closed' /\ ~closed) \/ (\E k \in Callers : cconn[k] = c /\ cst[k] \in {"inflight", "got"} /\ cst'[k] = "idle")]_vars
\* the library closes a healthy connection only when nothing else is registered on it (C19 at the pool level: an abandoned
\* call harms no other call; C15)
NoCollateralClose ==
    [][\A c \in ConnIds : (open[c] /\ ~open'[c] /\ ~broken[c] /\ ~(closed' /\ ~closed)) => busy'[c] = 0]_vars
\* ... nor a healthy connection on which an abandoned call (context ended, server still working) has not been answered yet
AbandonedSpared ==
    [][\A c \in ConnIds : (open[c] /\ ~open'[c] /\ ~broken[c] /\ (\E k \in Callers : cst[k] = "abandoned" /\ cconn[k] = c))
          => (closed' /\ ~closed) \/ (\E k \in Callers : cconn[k] = c /\ cst[k] \in {"inflight", "got"} /\ cst'[k] = "idle")]_vars
CloseClosesAll == closed => \A a \in Addrs : conns[a] = <<>> /\ idle[a] = <<>>

================================================================================
