------------------------------- MODULE PoolStruct -------------------------------
(* The two containers behind Transport's pool, at the grain of the code's pointer assignments (transport.go):

     connQueue  - the idle queue: a doubly linked list between two sentinels, front and rear, with a length and a capacity.
                  Enqueue links a fresh node before the rear sentinel; Dequeue unlinks front.next WITHOUT repairing the
                  back pointer of its successor (nor rear.previous when the queue empties) - the code relies on the
                  `length == 0` special case in Enqueue and on the length tests in Front/Rear to hide the stale pointers.
     conns      - the per-address list of active connections with its round-robin cursor.

   Transport.tla treats the idle queue as a sequence and the list as a sequence with a cursor; this module checks that
   the pointer structures really refine those sequences (QueueRefines, ListRefines) for every history of operations up
   to the bounds, and every such history - each operation with its result and the observers' answers after it - is
   written out and stepped through the real connQueue / conns (drivers VerifQueue / VerifConns, build tag verif). *)
EXTENDS Integers, Sequences, FiniteSets, TLC, Json

CONSTANTS Cap,        \* capacity of the queue (MaxIdleConnsPerHost)
          Vals,       \* connections (positive integers; 0 stands for nil)
          Depth,      \* operations per history
          Mode,       \* "queue" or "conns"
          Deviation   \* "none" or the name of a seeded deviation (the check expects an invariant to fail)

Nil == 0
F == -1               \* front sentinel
R == -2               \* rear sentinel
Nodes == {F, R} \cup (1..Depth)

VARIABLES nxt, prv, val, length, alloc,   \* connQueue: node fields, q.length, next fresh node
          fifo,                           \* the sequence Transport.tla means by the idle queue
          list, cursor,                   \* conns.Conns (as the code's slice), conns.cursor
          hist                            \* operations so far, with results and observations
vars == <<nxt, prv, val, length, alloc, fifo, list, cursor, hist>>

Init == /\ nxt = [n \in Nodes |-> IF n = F THEN R ELSE Nil]
        /\ prv = [n \in Nodes |-> IF n = R THEN F ELSE Nil]
        /\ val = [n \in Nodes |-> Nil]
        /\ length = 0 /\ alloc = 1 /\ fifo = <<>>
        /\ list = <<>> /\ cursor = 0
        /\ hist = <<>>

\* observers as the code computes them
FrontObs(nx, vl, len) == IF len = 0 THEN Nil ELSE vl[nx[F]]
RearObs(pv, vl, len)  == IF len = 0 THEN Nil ELSE vl[pv[R]]

Rec(op, arg, res) == hist' = Append(hist, [op |-> op, arg |-> arg, res |-> res,
                                           front |-> FrontObs(nxt', val', length'), rear |-> RearObs(prv', val', length'),
                                           len |-> length', list |-> list'])

QUnch == UNCHANGED <<nxt, prv, val, length, alloc, fifo>>
LUnch == UNCHANGED <<list, cursor>>

\* Enqueue(value): refused when full or nil; otherwise the five assignments of the code, in order
Enqueue(v) ==
    /\ Mode = "queue" /\ LUnch
    /\ IF length = Cap \/ v = Nil
       THEN QUnch /\ Rec("enq", v, 0)
       ELSE LET n   == alloc
                nx1 == IF length = 0 \/ Deviation = "AlwaysRelinkFront" THEN [nxt EXCEPT ![F] = n] ELSE nxt   \* q.front.next = node
                pv2 == [prv EXCEPT ![n] = prv[R]]                              \* node.previous = q.rear.previous
                nx3 == [nx1 EXCEPT ![n] = R]                                   \* node.next = q.rear
                nx4 == [nx3 EXCEPT ![pv2[R]] = n]                              \* q.rear.previous.next = node
                pv5 == [pv2 EXCEPT ![R] = n]                                   \* q.rear.previous = node
            IN /\ nxt' = nx4 /\ prv' = pv5 /\ val' = [val EXCEPT ![n] = v]
               /\ length' = length + 1 /\ alloc' = alloc + 1
               /\ fifo' = Append(fifo, v)
               /\ Rec("enq", v, 1)

\* Dequeue(): nil when empty; otherwise unlink front.next (the successor's back pointer is left as it is)
Dequeue ==
    /\ Mode = "queue" /\ LUnch
    /\ IF length = 0
       THEN QUnch /\ Rec("deq", 0, Nil)
       ELSE LET r == nxt[F]
            IN /\ nxt' = [[nxt EXCEPT ![F] = nxt[r]] EXCEPT ![r] = Nil]
               /\ prv' = [prv EXCEPT ![r] = Nil]
               /\ length' = IF Deviation = "DequeueKeepsLength" /\ length = 1 THEN length ELSE length - 1
               /\ fifo' = Tail(fifo)
               /\ UNCHANGED <<val, alloc>>
               /\ Rec("deq", 0, val[r])

\* conns.Append / Delete(i) / Cursor()
LAppend(v) == /\ Mode = "conns" /\ QUnch /\ Len(list) < Cap
              /\ list' = Append(list, v) /\ UNCHANGED cursor /\ Rec("app", v, 0)
LDelete(i) == /\ Mode = "conns" /\ QUnch /\ i \in 0..(Len(list) - 1)
              /\ list' = [k \in 1..(Len(list) - 1) |-> IF k <= i THEN list[k] ELSE list[k + 1]]
              /\ UNCHANGED cursor /\ Rec("del", i, 0)
LCursor == /\ Mode = "conns" /\ QUnch /\ Len(list) > 0        \* callers test len(Conns) first
           /\ cursor' = IF cursor + 1 > Len(list) - 1 THEN 0 ELSE cursor + 1
           /\ UNCHANGED list /\ Rec("cur", 0, cursor')

Next == /\ Len(hist) < Depth
        /\ \/ \E v \in Vals \cup {Nil} : Enqueue(v)
           \/ Dequeue
           \/ \E v \in Vals : LAppend(v)
           \/ \E i \in 0..(Cap - 1) : LDelete(i)
           \/ LCursor

Spec == Init /\ [][Next]_vars

--------------------------------------------------------------------------------
\* the values met walking k links from the front sentinel
RECURSIVE Walk(_, _)
Walk(n, k) == IF k = 0 THEN <<>> ELSE <<val[n]>> \o Walk(nxt[n], k - 1)
RECURSIVE Reach(_, _)
Reach(n, k) == IF k = 0 THEN n ELSE Reach(nxt[n], k - 1)

QueueRefines == /\ length = Len(fifo)
                /\ length <= Cap
                /\ length > 0 => /\ nxt[F] \in 1..Depth
                                 /\ Walk(nxt[F], length) = fifo          \* forward chain holds the FIFO content
                                 /\ Reach(nxt[F], length) = R            \* and ends at the rear sentinel
                                 /\ FrontObs(nxt, val, length) = Head(fifo)
                                 /\ RearObs(prv, val, length) = fifo[Len(fifo)]
                /\ \A i \in 1..Len(fifo) : fifo[i] # Nil                 \* nil is never stored

\* each operation's result is the sequence's answer
ResultsRefine == \A i \in 1..Len(hist) :
                    LET h == hist[i] IN
                    /\ h.op = "deq" => (h.res = Nil) = (i = 1 \/ hist[IF i = 1 THEN 1 ELSE i - 1].len = 0)
                    /\ h.op = "enq" /\ h.res = 0 => (h.arg = Nil \/ h.len = Cap)

ListRefines == /\ Len(list) > 0 /\ Len(hist) > 0 /\ hist[Len(hist)].op = "cur" => hist[Len(hist)].res \in 0..(Len(list) - 1)
               /\ cursor >= 0

\* round robin: Len(list) consecutive Cursor() calls on an unchanged list visit every index exactly once
RoundRobin == \A i \in 1..Len(hist) :
                 LET n == Len(hist[i].list) IN
                 (n > 0 /\ i + n - 1 <= Len(hist) /\ \A j \in i..(i + n - 1) : hist[j].op = "cur")
                    => {hist[j].res : j \in i..(i + n - 1)} = 0..(n - 1)

\* written-out histories (complete ones only)
Emit == Len(hist) = Depth => PrintT(<<"HIST", ToJson(hist)>>)
================================================================================
