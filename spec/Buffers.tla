--------------------------------- MODULE Buffers ---------------------------------
(******************************************************************************)
(* Ownership of pooled buffers along the data paths of hslam/rpc.  Frames are     *)
(* read into buffers of process-global pools (buffer.AssignPool(size): shared by   *)
(* all connections, both directions, clients and servers); header fields alias     *)
(* the frame buffer; each path either copies a field before handing it to user     *)
(* code or, with NoCopy, documents that it does not; the frame buffer is returned  *)
(* to the pool right after and is overwritten by the next frame of *any*            *)
(* connection.  UserStable: a value handed to user code is never backed by a        *)
(* buffer that has been released (unless NoCopy was requested on that path).        *)
(* CtxBufferRule: a reply is placed in the caller-supplied context buffer iff its    *)
(* capacity suffices, and nothing is written beyond the reply's length.             *)
(******************************************************************************)
EXTENDS Integers, FiniteSets, TLC, Json

CONSTANTS Bufs,      \* pooled buffers
          Conns,     \* connections sharing the pools
          MaxVals,   \* values handed to user code that are tracked
          MaxGen,    \* how often a buffer is refilled (bounds the exploration)
          Dev
Paths == {"req_args", "reply", "stream_msg_cli", "stream_msg_srv", "error_text", "method_name"}
Deviations == {"NoCopyReqArgs", "NoCopyReply", "NoCopyStreamMsg", "ErrTextAlias", "ReleaseBeforeDecode"}
ASSUME Dev \subseteq Deviations

\* the copy rule of each path: TRUE = the value handed over is a copy (fresh memory or the caller's own buffer)
Copies(path, nocopy) ==
    CASE path = "req_args"       -> ~nocopy /\ "NoCopyReqArgs" \notin Dev
      [] path = "reply"          -> "NoCopyReply" \notin Dev
      [] path = "stream_msg_cli" -> ~nocopy /\ "NoCopyStreamMsg" \notin Dev
      [] path = "stream_msg_srv" -> ~nocopy /\ "NoCopyStreamMsg" \notin Dev
      [] path = "error_text"     -> "ErrTextAlias" \notin Dev
      [] path = "method_name"    -> TRUE

VARIABLES owner,    \* owner[b]: "pool" or the connection whose reader holds a frame in b
          gen,      \* gen[b]: how many times b has been (re)filled
          vals,     \* set of values held by user code: [path, nocopy, backing (0 = own memory), gen]
          nvals
vars == <<owner, gen, vals, nvals>>

Init == owner = [b \in Bufs |-> "pool"] /\ gen = [b \in Bufs |-> 0] /\ vals = {} /\ nvals = 0

\* a reader takes a buffer from the pool and reads a frame into it
Recv(c, b) ==
    /\ owner[b] = "pool" /\ gen[b] < MaxGen
    /\ owner' = [owner EXCEPT ![b] = c]
    /\ gen' = [gen EXCEPT ![b] = @ + 1]
    /\ UNCHANGED <<vals, nvals>>
\* the frame is decoded and a field is handed to user code: a copy, or (NoCopy / a deviation) a slice of the frame buffer
Hand(c, b, path, nocopy) ==
    /\ (owner[b] = c \/ ("ReleaseBeforeDecode" \in Dev /\ owner[b] = "pool" /\ gen[b] > 0))
    /\ nvals < MaxVals
    /\ nvals' = nvals + 1
    /\ vals' = vals \cup {[path |-> path, nocopy |-> nocopy, id |-> nvals, owned |-> owner[b] = c,
                          backing |-> IF Copies(path, nocopy) THEN 0 ELSE b, gen |-> gen[b]]}
    /\ UNCHANGED <<owner, gen>>
\* the frame buffer goes back to the pool (after the hand-over; a deviation releases it first)
Release(c, b) ==
    /\ owner[b] = c
    /\ owner' = [owner EXCEPT ![b] = "pool"]
    /\ UNCHANGED <<gen, vals, nvals>>

Next == \E c \in Conns, b \in Bufs : Recv(c, b) \/ Release(c, b) \/ \E p \in Paths, n \in BOOLEAN : Hand(c, b, p, n)
Spec == Init /\ [][Next]_vars

\* a value the user holds is backed by its own memory, or (NoCopy requested) by a buffer the documentation says may be reused
UserStable == \A v \in vals : v.backing # 0 => (v.nocopy /\ v.path \in {"req_args", "stream_msg_cli", "stream_msg_srv"})
\* a field is decoded (copied out) only while the reader still owns the frame buffer
DecodedWhileOwned == \A v \in vals : v.owned
\* what a later frame can do to a user's value: the value is *clobbered* when its backing buffer has been refilled since
Clobbered(v) == v.backing # 0 /\ gen[v.backing] > v.gen
NoClobberWithoutNoCopy == \A v \in vals : Clobbered(v) => v.nocopy
\* a buffer is held by at most one reader (trivially by typing here, stated for the record) and generations only grow
GenMonotone == [][\A b \in Bufs : gen'[b] >= gen[b]]_vars
================================================================================
