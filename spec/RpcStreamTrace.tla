---------------------------- MODULE RpcStreamTrace ----------------------------
(******************************************************************************)
(* Validates traces of real stream traffic (Conn.NewStream / Stream on the       *)
(* client, a puppet stream handler under ServeCodec) against RpcStream.tla.      *)
(* The trace specification follows the *intended* design only (Dev = {}): the    *)
(* frames on the wire, the dispatch decisions of both sides and everything the   *)
(* API returned (each ReadMessage result, NewStream / Close returns, handler     *)
(* start / return) must be explained by it; a message lost, duplicated,          *)
(* reordered or delivered to the wrong stream, or a read left blocked after the  *)
(* connection ended, makes the trace unexplainable (rejected) or violates an     *)
(* invariant.                                                                    *)
(******************************************************************************)
EXTENDS RpcStream, Json

VARIABLES l, bad, cret, sret, pendClose     \* cret[s] / sret[s]: how many dequeued messages have been reported back by ReadMessage

Trace == ndJsonDeserialize("trace.ndjson")
tvars == <<vars, l, bad, cret, sret, pendClose>>
E == Trace[l]
IsEv(e) == l <= Len(Trace) /\ Trace[l].ev = e
Adv == l' = l + 1
NoFlag == UNCHANGED <<bad, cret, sret, pendClose>>
InS(s) == s \in Streams

TrInit == Init /\ l = 1 /\ bad = {} /\ cret = [s \in Streams |-> 0] /\ sret = [s \in Streams |-> 0] /\ pendClose = 0

TrReset ==
    /\ IsEv("reset")
    /\ cph' = [s \in Streams |-> "none"] /\ flipped' = [s \in Streams |-> FALSE] /\ cstop' = [s \in Streams |-> FALSE]
    /\ cq' = [s \in Streams |-> <<>>] /\ cgot' = [s \in Streams |-> <<>>] /\ cblocked' = [s \in Streams |-> FALSE]
    /\ cshut' = [s \in Streams |-> FALSE] /\ nsent' = [s \in Streams |-> 0] /\ nbad' = [s \in Streams |-> 0] /\ creader' = "reading"
    /\ c2s' = <<>> /\ s2c' = <<>> /\ cut' = FALSE
    /\ sreg' = [s \in Streams |-> FALSE] /\ sacked' = [s \in Streams |-> FALSE] /\ hst' = [s \in Streams |-> "none"]
    /\ sstop' = [s \in Streams |-> FALSE] /\ sq' = [s \in Streams |-> <<>>] /\ sgot' = [s \in Streams |-> <<>>]
    /\ sblocked' = [s \in Streams |-> FALSE] /\ sshut' = [s \in Streams |-> FALSE] /\ npush' = [s \in Streams |-> 0]
    /\ steardown' = "serving" /\ cackp' = {}
    /\ Adv /\ bad' = bad /\ cret' = [s \in Streams |-> 0] /\ sret' = [s \in Streams |-> 0] /\ pendClose' = 0

\* ---- frames written (E.c = 1 client->server, 2 server->client; E.a = 1 iff it went onto the wire)
TrFrame ==
    /\ IsEv("w.frame") /\ InS(E.s)
    /\ (E.a = 1) <=> ~cut
    /\ CASE E.c = 1 /\ E.k = "open"  -> Open(E.s)
         [] E.c = 1 /\ E.k = "msg"   -> CliWrite(E.s) /\ nsent'[E.s] = E.b
         [] E.c = 1 /\ E.k = "close" -> CloseSend(E.s)
         [] E.c = 2 /\ E.k = "ack"   -> SrvAck(E.s)
         [] E.c = 2 /\ E.k = "msg"   -> Push(E.s) /\ npush'[E.s] = E.b
         [] E.c = 2 /\ E.k = "closeack" -> SrvCloseAck(E.s)
    /\ Adv /\ NoFlag

\* the server's decode worker dispatches the next request frame (E.b = upgrade byte).  A close-stream request
\* takes effect when the worker actually stops the stream (s.stop under the stream's mutex), not at the
\* dispatch hook: the dispatch of a close is only remembered here.
TrSrvFrame ==
    /\ IsEv("v.dispatch")
    /\ c2s # <<>> /\ Head(c2s).s = E.s
    /\ Head(c2s).k = (CASE E.b = 200 -> "open" [] E.b = 80 -> "msg" [] E.b = 216 -> "close" [] OTHER -> "?")
    /\ IF E.b = 216
         THEN /\ pendClose' = E.s
              /\ (IF sreg[E.s] THEN UNCHANGED vars ELSE SrvFrame(FALSE))    \* unknown stream: only the ack is written
              /\ (sreg[E.s] \/ pendClose' = pendClose \/ TRUE)
         ELSE SrvFrame(FALSE) /\ pendClose' = pendClose
    /\ Adv /\ UNCHANGED <<bad, cret, sret>>

\* a stream end is stopped (hook under the stream's mutex)
TrStop ==
    /\ IsEv("s.stop") /\ InS(E.s)
    /\ IF E.k = "srv"
         THEN IF pendClose = E.s /\ c2s # <<>> /\ Head(c2s).k = "close" /\ Head(c2s).s = E.s
                THEN SrvFrame(FALSE) /\ pendClose' = 0                           \* the close request takes effect
                ELSE /\ steardown = "eof"                                         \* the teardown closes what is left in the table
                     /\ sstop' = [sstop EXCEPT ![E.s] = TRUE]
                     /\ UNCHANGED <<cph, flipped, cstop, cq, cgot, cblocked, cshut, nsent, nbad, creader, c2s, s2c, cut, sreg, sacked, hst, sq, sgot, sblocked, sshut, npush, cackp, steardown>>
                     /\ pendClose' = pendClose
         ELSE /\ pendClose' = pendClose
              /\ IF cph[E.s] = "streaming" /\ creader = "reading" /\ ~cstop[E.s]
                   THEN CliClose(E.s)                                              \* Stream.Close by the user
                   ELSE /\ cstop' = [cstop EXCEPT ![E.s] = TRUE]                  \* the reader's final sweep (or a repeated stop)
                        /\ UNCHANGED <<cph, flipped, cq, cgot, cblocked, cshut, nsent, nbad, creader, c2s, s2c, cut, sreg, sacked, hst, sstop, sq, sgot, sblocked, sshut, npush, cackp, steardown>>
    /\ Adv /\ UNCHANGED <<bad, cret, sret>>

TrHandlerStart ==
    /\ IsEv("h.start") /\ InS(E.s)
    /\ HandlerStart(E.s, FALSE)           \* only after the ack
    /\ Adv /\ NoFlag

\* the client's reader dispatches the next frame of the stream
TrReaderFrame ==
    /\ IsEv("c.dispatch")
    /\ s2c # <<>> /\ Head(s2c).s = E.s
    \* a message for a stream that is open on the client finds the stream's entry (logged: "none" when the table had none)
    /\ (Head(s2c).k = "msg" /\ cph[E.s] = "streaming" /\ flipped[E.s]) => E.k # "none"
    /\ ReaderFrame(FALSE, FALSE, FALSE)
    /\ Adv /\ NoFlag

TrEstablished ==
    /\ IsEv("api.established") /\ InS(E.s)
    /\ IF E.a = 0 THEN Established(E.s)
       ELSE UNCHANGED vars                 \* NewStream failed (connection ended during the handshake)
    /\ Adv /\ NoFlag

\* a ReadMessage took the next queued event (hook under the stream's mutex: the linearisation point of a read)
TrQRead ==
    /\ IsEv("s.read") /\ InS(E.s)
    /\ IF E.k = "cli" THEN ~cstop[E.s] /\ cq[E.s] # <<>> /\ CliRead(E.s)
       ELSE ~sstop[E.s] /\ sq[E.s] # <<>> /\ SrvRead(E.s)
    /\ Adv /\ NoFlag
\* a ReadMessage found the stream shut down
TrQShut ==
    /\ IsEv("s.read.shutdown") /\ InS(E.s)
    /\ IF E.k = "cli" THEN cstop[E.s] /\ CliRead(E.s)
       ELSE /\ sstop[E.s]
            /\ sshut' = [sshut EXCEPT ![E.s] = TRUE] /\ sblocked' = [sblocked EXCEPT ![E.s] = FALSE]
            /\ UNCHANGED <<cph, flipped, cstop, cq, cgot, cblocked, cshut, nsent, nbad, creader, c2s, s2c, cut, sreg, sacked, hst, sstop, sq, sgot, npush, cackp, steardown>>
    /\ Adv /\ NoFlag
\* what ReadMessage handed back to its caller: the message dequeued at the matching s.read, intact (E.sent = 1), or the shutdown
TrCliReadRet ==
    /\ IsEv("cli.read.ret") /\ InS(E.s)
    /\ IF E.k = "msg"
         THEN /\ cret[E.s] < Len(cgot[E.s]) /\ cgot[E.s][cret[E.s] + 1] = Msg(E.b, "s2c", E.a) /\ E.sent = 1
              /\ cret' = [cret EXCEPT ![E.s] = @ + 1]
         ELSE /\ E.k = "shutdown" /\ cshut[E.s] /\ cret' = cret
    /\ UNCHANGED <<vars, bad, sret, pendClose>> /\ Adv
TrSrvReadRet ==
    /\ IsEv("h.read.ret") /\ InS(E.s)
    /\ IF E.k = "msg"
         THEN /\ sret[E.s] < Len(sgot[E.s]) /\ sgot[E.s][sret[E.s] + 1] = Msg(E.b, "c2s", E.a) /\ E.sent = 1
              /\ sret' = [sret EXCEPT ![E.s] = @ + 1]
         ELSE /\ E.k = "shutdown" /\ sshut[E.s] /\ sret' = sret
    /\ UNCHANGED <<vars, bad, cret, pendClose>> /\ Adv

TrCliClose == IsEv("api.close") /\ UNCHANGED vars /\ Adv /\ NoFlag
TrCloseRet == IsEv("api.close.ret") /\ UNCHANGED vars /\ Adv /\ NoFlag
TrApiOpen == IsEv("api.open") /\ UNCHANGED vars /\ Adv /\ NoFlag
TrCliWrite == IsEv("cli.write") /\ UNCHANGED vars /\ Adv /\ NoFlag
TrCliWriteBad == IsEv("cli.write.bad") /\ InS(E.s) /\ CliWriteFail(E.s) /\ Adv /\ NoFlag
TrPush == IsEv("h.push") /\ UNCHANGED vars /\ Adv /\ NoFlag

TrHandlerReturn ==
    /\ IsEv("h.return") /\ InS(E.s)
    /\ hst' = [hst EXCEPT ![E.s] = "returned"]
    /\ UNCHANGED <<cph, flipped, cstop, cq, cgot, cblocked, cshut, nsent, nbad, creader, c2s, s2c, cut, sreg, sacked, sstop, sq, sgot, sblocked, sshut, npush, cackp, steardown>>
    /\ Adv /\ NoFlag

TrCut ==
    /\ (IsEv("env.cut") \/ IsEv("w.close"))
    /\ cut' = TRUE
    /\ UNCHANGED <<cph, flipped, cstop, cq, cgot, cblocked, cshut, nsent, nbad, creader, c2s, s2c, sreg, sacked, hst, sstop, sq, sgot, sblocked, sshut, npush, cackp, steardown>>
    /\ Adv /\ NoFlag
TrConnClose == IsEv("c.close") /\ UNCHANGED vars /\ Adv /\ NoFlag

TrCliSweep == IsEv("c.eofsweep") /\ CliSweep(TRUE) /\ Adv /\ NoFlag     \* the stops of the sweep follow as s.stop events
TrSrvEOF == IsEv("v.eof") /\ SrvEOF /\ Adv /\ NoFlag
TrSrvDone == IsEv("v.done") /\ SrvTeardown(TRUE) /\ Adv /\ NoFlag        \* the stops of the teardown came as s.stop events
TrSrvDrop ==      \* a request decoded after the teardown closed the codec is dropped
    /\ IsEv("v.drop") /\ steardown # "serving" /\ UNCHANGED vars /\ Adv /\ NoFlag

TrObsClosing == IsEv("obs.closing") /\ UNCHANGED vars /\ Adv /\ NoFlag
TrObsEnd ==      \* E.a client reads / E.b handler reads still blocked 2 s after the connection ended
    /\ IsEv("obs.end")
    /\ bad' = bad \cup (IF E.a # 0 THEN {<<l, "clientblocked">>} ELSE {}) \cup (IF E.b # 0 THEN {<<l, "handlerblocked">>} ELSE {})
                  \cup (IF E.s # 0 THEN {<<l, "callblocked">>} ELSE {})          \* NewStream / Close never returned
                  \cup (IF ~StreamsStoppedAfterLoss THEN {<<l, "notstopped">>} ELSE {})      \* every stop of the sweeps has been seen by now
    /\ UNCHANGED <<vars, cret, sret, pendClose>> /\ Adv

TrNext ==
    \/ TrReset \/ TrFrame \/ TrSrvFrame \/ TrHandlerStart \/ TrReaderFrame \/ TrEstablished \/ TrQRead \/ TrQShut \/ TrCliReadRet \/ TrSrvReadRet
    \/ TrCliClose \/ TrCloseRet \/ TrApiOpen \/ TrCliWrite \/ TrCliWriteBad \/ TrPush \/ TrHandlerReturn \/ TrCut \/ TrConnClose
    \/ TrCliSweep \/ TrSrvEOF \/ TrSrvDone \/ TrStop \/ TrSrvDrop \/ TrObsClosing \/ TrObsEnd

TrSpec == TrInit /\ [][TrNext]_tvars

ASSUME TLCSet(1, 0)
TrHigh == TLCSet(1, IF TLCGet(1) > l THEN TLCGet(1) ELSE l)
TrAccepted == IF TLCGet(1) = Len(Trace) + 1 THEN TRUE
              ELSE PrintT(<<"TRACE-REJECTED-AT", TLCGet(1)>>) /\ FALSE

Unblocked == bad = {}      \* C10
================================================================================
