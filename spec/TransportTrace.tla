---------------------------- MODULE TransportTrace ----------------------------
(******************************************************************************)
(* Validates traces of the real rpc.Transport against the pool state of        *)
(* Transport.tla.  Every pool decision of the code (getConn path, dial, idle    *)
(* dequeue, retire, overflow close, idle expiry, CloseIdleConnections, Close,   *)
(* dead mark) is stamped under connsMu, so the events are a sequential history  *)
(* of the pool: each event is replayed on the model's conns / idle / cursor /   *)
(* alive / open, its enabling condition is checked against the model state, and *)
(* the pool invariants of Transport.tla are evaluated in every state.           *)
(* API events (call started / returned, with the identity of the server that    *)
(* answered) and the socket count at the end are checked as well.               *)
(******************************************************************************)
EXTENDS Transport, Json

VARIABLES l, bad

Trace == ndJsonDeserialize("trace.ndjson")
AddrSeq == <<"a", "b", "c">>
AddrN(i) == AddrSeq[i]

tvars == <<vars, l, bad>>
E == Trace[l]
IsEv(e) == l <= Len(Trace) /\ Trace[l].ev = e
Adv == l' = l + 1
Flag(w) == bad' = bad \cup {<<l, w>>}
NoFlag == UNCHANGED bad
InIds(c) == c \in ConnIds

\* variables of Transport.tla the trace does not drive
\* (here cconn[k] is the connection last handed to caller k, set at t.get; cst[k] = "inflight" from api.reg to api.ret)
RestNC == UNCHANGED <<last, clock, tnow, caddr, ncalls, nkills>>
RestNB == RestNC /\ UNCHANGED cst
Rest == RestNB /\ UNCHANGED broken
KeepBusy == UNCHANGED <<busy, cconn>>

TrInit == Init /\ l = 1 /\ bad = {}

TrReset ==
    /\ IsEv("reset")
    /\ conns' = [a \in Addrs |-> <<>>] /\ cursor' = [a \in Addrs |-> 0] /\ idle' = [a \in Addrs |-> <<>>]
    /\ addrOf' = [c \in ConnIds |-> NoAddr] /\ alive' = [c \in ConnIds |-> FALSE] /\ open' = [c \in ConnIds |-> FALSE]
    /\ used' = {} /\ up' = [a \in Addrs |-> TRUE] /\ closed' = FALSE
    /\ failsSince' = [k \in Callers |-> 0]
    /\ busy' = [c \in ConnIds |-> 0] /\ cconn' = [k \in Callers |-> NoConn]
    /\ broken' = [c \in ConnIds |-> FALSE] /\ cst' = [k \in Callers |-> "idle"]
    /\ RestNC /\ Adv /\ NoFlag

TrDial ==
    /\ IsEv("t.dial")
    /\ IF E.b = 1
         THEN /\ InIds(E.s) /\ E.s \notin used
              /\ addrOf' = [addrOf EXCEPT ![E.s] = AddrN(E.a)]
              /\ alive' = [alive EXCEPT ![E.s] = TRUE]
              /\ open' = [open EXCEPT ![E.s] = TRUE]
              /\ used' = used \cup {E.s}
         ELSE UNCHANGED <<addrOf, alive, open, used>>
    \* a failed replacement on the round-robin path has advanced the cursor already
    /\ cursor' = IF E.b = 0 /\ E.a > 0 /\ conns[AddrN(E.a)] # <<>> /\ Len(conns[AddrN(E.a)]) >= MaxConns
                   THEN [cursor EXCEPT ![AddrN(E.a)] = NextCursor(AddrN(E.a))] ELSE cursor
    /\ UNCHANGED <<conns, idle, up, closed, failsSince>> /\ Rest /\ KeepBusy /\ Adv /\ NoFlag

TrIdleDeq ==
    /\ IsEv("t.idle.deq")
    /\ LET a == AddrN(E.a) IN
       /\ idle[a] # <<>> /\ Head(idle[a]) = E.s
       /\ idle' = [idle EXCEPT ![a] = Tail(@)]
    /\ UNCHANGED <<conns, cursor, addrOf, alive, open, used, up, closed, failsSince>> /\ Rest /\ KeepBusy /\ Adv /\ NoFlag

\* getConn hands a connection out (E.b = path: 1 append, 2 round robin, 3 replace dead, 4 new entry)
TrGet ==
    /\ IsEv("t.get") /\ InIds(E.s)
    /\ LET a == AddrN(E.a)
           c == E.s IN
       /\ CASE E.b = 1 -> /\ conns[a] # <<>>
                          /\ conns' = [conns EXCEPT ![a] = Append(@, c)]
                          /\ cursor' = cursor
            [] E.b = 2 -> /\ conns[a] # <<>> /\ conns[a][NextCursor(a) + 1] = c
                          /\ cursor' = [cursor EXCEPT ![a] = NextCursor(a)]
                          /\ conns' = conns
            [] E.b = 3 -> /\ conns[a] # <<>>
                          /\ cursor' = [cursor EXCEPT ![a] = NextCursor(a)]
                          /\ conns' = [conns EXCEPT ![a][NextCursor(a) + 1] = c]
            [] E.b = 4 -> /\ conns[a] = <<>>
                          /\ conns' = [conns EXCEPT ![a] = <<c>>]
                          /\ cursor' = [cursor EXCEPT ![a] = 0]
       \* C14: the connection was dialed to the requested address and does not carry the dead mark
       /\ bad' = bad \cup (IF addrOf[c] # a THEN {<<l, "wrongaddr">>} ELSE {})
                     \cup (IF ~alive[c] THEN {<<l, "deadhandout">>} ELSE {})
                     \cup (IF E.b = 1 /\ Len(conns[a]) >= MaxConns THEN {<<l, "appendfull">>} ELSE {})
    /\ cconn' = IF E.c \in Callers THEN [cconn EXCEPT ![E.c] = E.s] ELSE cconn
    /\ UNCHANGED <<idle, addrOf, alive, open, used, up, closed, failsSince, busy>> /\ Rest /\ Adv

\* a caller saw ErrShutdown (or what the library takes for it) and marks the connection dead, then closes it: the connection
\* must really have ended - cut by the environment, closed by housekeeping or by Close - not be a healthy one
TrDead ==
    /\ IsEv("t.dead") /\ InIds(E.s)
    /\ alive' = [alive EXCEPT ![E.s] = FALSE]
    /\ bad' = bad \cup (IF open[E.s] /\ ~broken[E.s] /\ ~closed THEN {<<l, "deadhealthy">>} ELSE {})
    /\ UNCHANGED <<conns, cursor, idle, addrOf, open, used, up, closed, failsSince>> /\ Rest /\ KeepBusy /\ Adv

TrConnClose ==
    /\ IsEv("c.close") /\ InIds(E.s)
    /\ open' = [open EXCEPT ![E.s] = FALSE]
    /\ UNCHANGED <<conns, cursor, idle, addrOf, alive, used, up, closed, failsSince>> /\ Rest /\ KeepBusy /\ Adv /\ NoFlag

TrTick == IsEv("t.tick") /\ UNCHANGED vars /\ Adv /\ NoFlag

\* end of a pass / of CloseIdleConnections: entries that became empty are deleted (their cursor with them)
Cleanup == cursor' = [a \in Addrs |-> IF conns[a] = <<>> THEN 0 ELSE cursor[a]]
TrTickEnd ==
    /\ (IsEv("t.tick.end") \/ IsEv("api.closeidle.end"))
    /\ Cleanup
    /\ UNCHANGED <<conns, idle, addrOf, alive, open, used, up, closed, failsSince>> /\ Rest /\ KeepBusy /\ Adv /\ NoFlag

IndexOf(s, c) == CHOOSE i \in 1..Len(s) : s[i] = c

\* retire: removed from the active list; E.a = 1: no room in the idle queue, closed instead
TrRetire ==
    /\ IsEv("t.retire") /\ InIds(E.s)
    /\ \E a \in Addrs :
         /\ E.s \in Range(conns[a])
         /\ conns' = [conns EXCEPT ![a] = RemoveAt(@, IndexOf(@, E.s))]
         /\ idle' = IF E.a = 1 THEN idle ELSE [idle EXCEPT ![a] = Append(@, E.s)]
    /\ bad' = bad \cup (IF E.a = 1 /\ busy[E.s] > 0 THEN {<<l, "busyclosed">>} ELSE {})
    /\ UNCHANGED <<cursor, addrOf, alive, open, used, up, closed, failsSince>> /\ Rest /\ KeepBusy /\ Adv

\* idle expiry / CloseIdleConnections on the idle queue: always the front entry; E.b = NumCalls at the decision
TrIdleClose ==
    /\ (IsEv("t.idle.close") \/ IsEv("t.closeidle.idle")) /\ InIds(E.s)
    /\ \E a \in Addrs :
         /\ idle[a] # <<>> /\ Head(idle[a]) = E.s
         /\ idle' = [idle EXCEPT ![a] = Tail(@)]
    /\ bad' = bad \cup (IF busy[E.s] > 0 THEN {<<l, "busyclosed">>} ELSE {})
    /\ UNCHANGED <<conns, cursor, addrOf, alive, open, used, up, closed, failsSince>> /\ Rest /\ KeepBusy /\ Adv

TrCloseIdleActive ==
    /\ IsEv("t.closeidle.active") /\ InIds(E.s)
    /\ \E a \in Addrs :
         /\ E.s \in Range(conns[a])
         /\ conns' = [conns EXCEPT ![a] = RemoveAt(@, IndexOf(@, E.s))]
    /\ bad' = bad \cup (IF busy[E.s] > 0 THEN {<<l, "busyclosed">>} ELSE {})
    /\ UNCHANGED <<cursor, idle, addrOf, alive, open, used, up, closed, failsSince>> /\ Rest /\ KeepBusy /\ Adv

TrApiCloseIdle == IsEv("api.closeidle") /\ UNCHANGED vars /\ Adv /\ NoFlag

TrCloseBegin == IsEv("t.close") /\ UNCHANGED vars /\ Adv /\ NoFlag
TrCloseConn ==      \* Transport.Close closes a pooled connection (E.a = 1: from the idle queue)
    /\ IsEv("t.close.conn") /\ InIds(E.s)
    /\ \E a \in Addrs : E.s \in Pooled(a)
    /\ UNCHANGED vars /\ Adv /\ NoFlag
TrClosed ==
    /\ IsEv("t.closed")
    /\ closed' = TRUE
    /\ conns' = [a \in Addrs |-> <<>>] /\ idle' = [a \in Addrs |-> <<>>]
    \* every pooled connection has been closed by now (c.close events precede)
    /\ bad' = bad \cup {<<l, "notclosed", c>> : c \in {x \in ConnIds : open[x] /\ \E a \in Addrs : x \in Pooled(a)}}
    /\ UNCHANGED <<cursor, addrOf, alive, open, used, up, failsSince>> /\ Rest /\ KeepBusy /\ Adv

\* ---- API level
TrApiCall == IsEv("api.call") /\ UNCHANGED vars /\ Adv /\ NoFlag
\* the driver has seen caller E.c's request reach the server over connection E.s: the call is registered
TrApiReg ==
    /\ IsEv("api.reg") /\ InIds(E.s)
    /\ busy' = [busy EXCEPT ![E.s] = @ + 1]
    /\ cconn' = [cconn EXCEPT ![E.c] = E.s]
    /\ cst' = [cst EXCEPT ![E.c] = "inflight"]
    /\ UNCHANGED <<conns, cursor, idle, addrOf, alive, open, used, up, closed, failsSince, broken>> /\ RestNC /\ Adv /\ NoFlag
\* housekeeping found an idle-queue entry with calls in flight and put it back at the rear
TrIdleSpare ==
    /\ IsEv("t.idle.spare") /\ InIds(E.s)
    /\ \E a \in Addrs :
         /\ idle[a] # <<>> /\ Head(idle[a]) = E.s
         /\ idle' = [idle EXCEPT ![a] = Append(Tail(@), E.s)]
    /\ UNCHANGED <<conns, cursor, addrOf, alive, open, used, up, closed, failsSince>> /\ Rest /\ KeepBusy /\ Adv /\ NoFlag
TrApiRet ==      \* E.a: 0 ok, 1 ErrShutdown, 2 ErrDial, 3 other, 4 the caller's own context ended (CallWithContext), 5 a stream broke with its connection, 6 the read error of the connection passed through to a call in flight, 7 the same error on a call handed the connection after it had ended;  E.b = 1: answered by the server of the requested address
    /\ IsEv("api.ret")
    /\ LET k == E.c IN
       /\ failsSince' = IF k \in Callers THEN [failsSince EXCEPT ![k] = IF E.a = 1 THEN (IF cconn[k] # NoConn /\ broken[cconn[k]] THEN @ + 1 ELSE @) ELSE IF E.a = 0 THEN 0 ELSE @] ELSE failsSince
       /\ bad' = bad \cup (IF E.b # 1 THEN {<<l, "wrongserver">>} ELSE {})
                     \cup (IF E.a = 3 THEN {<<l, "othererror">>} ELSE {})
                     \cup (IF E.a = 7 THEN {<<l, "rawrefusal">>} ELSE {})
    /\ LET k == E.c IN
       IF k \in Callers
         THEN IF E.a = 4 /\ cst[k] = "inflight" /\ cconn[k] # NoConn
                THEN \* the caller's context ended: the request is still with the server and keeps counting as a call on the
                     \* connection until the harness reports its late answer (env.late)
                     /\ cst' = [cst EXCEPT ![k] = "abandoned"] /\ KeepBusy /\ UNCHANGED cconn
                ELSE /\ busy' = IF cst[k] = "inflight" /\ cconn[k] # NoConn THEN [busy EXCEPT ![cconn[k]] = @ - 1] ELSE busy
                     /\ cconn' = [cconn EXCEPT ![k] = NoConn]
                     /\ cst' = [cst EXCEPT ![k] = "idle"]
         ELSE KeepBusy /\ UNCHANGED <<cst, cconn>>
    \* "a connection on which a call has failed with ErrShutdown is never handed to a call started afterwards": for the forms that
    \* learn the outcome before they return (E.k; reading R3) the connection counts as given up from here on, whether or not the
    \* library marked it
    /\ alive' = IF E.c \in Callers /\ cconn[E.c] # NoConn /\ E.a = 1 /\ E.k \in {"call", "ctx", "stream"}
                THEN [alive EXCEPT ![cconn[E.c]] = FALSE] ELSE alive
    /\ UNCHANGED <<conns, cursor, idle, addrOf, open, used, up, closed, broken>> /\ RestNC /\ Adv

\* the harness released the handler of caller E.c's abandoned call and its late answer has been read and discarded
\* (nothing to do when the connection ended meanwhile: the abandoned call was swept with it)
TrLate ==
    /\ IsEv("env.late") /\ E.c \in Callers
    /\ IF cst[E.c] = "abandoned"
         THEN /\ busy' = [busy EXCEPT ![cconn[E.c]] = @ - 1]
              /\ cconn' = [cconn EXCEPT ![E.c] = NoConn]
              /\ cst' = [cst EXCEPT ![E.c] = "idle"]
         ELSE KeepBusy /\ UNCHANGED cst
    /\ UNCHANGED <<conns, cursor, idle, addrOf, alive, open, used, up, closed, broken, failsSince>> /\ RestNC /\ Adv /\ NoFlag
\* the abandoned calls on connections that end are swept with the rest of their tables
AbandonedOn(S) == {k \in Callers : cst[k] = "abandoned" /\ cconn[k] \in S}
SweepAbandoned(S) ==
    /\ cst' = [k \in Callers |-> IF k \in AbandonedOn(S) THEN "idle" ELSE cst[k]]
    /\ cconn' = [k \in Callers |-> IF k \in AbandonedOn(S) THEN NoConn ELSE cconn[k]]
    /\ busy' = [c \in ConnIds |-> busy[c] - Cardinality({k \in AbandonedOn(S) : cconn[k] = c})]

TrKill ==
    /\ IsEv("env.kill")
    /\ up' = [up EXCEPT ![AddrN(E.a)] = FALSE]
    /\ broken' = [c \in ConnIds |-> broken[c] \/ (addrOf[c] = AddrN(E.a) /\ open[c])]
    /\ SweepAbandoned({c \in ConnIds : addrOf[c] = AddrN(E.a) /\ open[c]})
    /\ UNCHANGED <<conns, cursor, idle, addrOf, alive, open, used, closed, failsSince>> /\ RestNC /\ Adv /\ NoFlag
TrRestart ==
    /\ IsEv("env.restart")
    /\ up' = [up EXCEPT ![AddrN(E.a)] = TRUE]
    /\ failsSince' = [k \in Callers |-> 0]
    /\ UNCHANGED <<conns, cursor, idle, addrOf, alive, open, used, closed>> /\ Rest /\ KeepBusy /\ Adv /\ NoFlag

TrDrop ==     \* one connection cut by the environment; its effects are logged (t.dead, c.close)
    /\ IsEv("env.drop") /\ InIds(E.s)
    /\ broken' = [broken EXCEPT ![E.s] = TRUE]
    /\ SweepAbandoned({E.s})
    /\ UNCHANGED <<conns, cursor, idle, addrOf, alive, open, used, up, closed, failsSince>> /\ RestNC /\ Adv /\ NoFlag
TrObsClosing == IsEv("obs.closing") /\ UNCHANGED vars /\ Adv /\ NoFlag
TrObsDupSignal ==   \* the Done channel of an asynchronous call (Go / RoundTrip) was signalled a second time
    /\ IsEv("obs.dupsignal")
    /\ bad' = bad \cup {<<l, "dupsignal">>}
    /\ UNCHANGED vars /\ Adv
TrObsDupExec ==   \* a request was executed E.a > 1 times: something re-issued the call
    /\ IsEv("obs.dupexec")
    /\ bad' = bad \cup {<<l, "dupexec">>}
    /\ UNCHANGED vars /\ Adv
TrObsEnd ==      \* E.a = sockets still open after Close and after every caller returned
    /\ IsEv("obs.end")
    /\ bad' = bad \cup (IF E.a # 0 THEN {<<l, "socketsleft">>} ELSE {})
    /\ UNCHANGED vars /\ Adv

TrNext ==
    \/ TrReset \/ TrDial \/ TrIdleDeq \/ TrGet \/ TrDead \/ TrConnClose \/ TrTick \/ TrTickEnd \/ TrRetire \/ TrIdleClose
    \/ TrCloseIdleActive \/ TrApiCloseIdle \/ TrCloseBegin \/ TrCloseConn \/ TrClosed
    \/ TrApiCall \/ TrApiReg \/ TrIdleSpare \/ TrApiRet \/ TrLate \/ TrKill \/ TrRestart \/ TrDrop \/ TrObsClosing \/ TrObsDupSignal \/ TrObsDupExec \/ TrObsEnd

TrSpec == TrInit /\ [][TrNext]_tvars

ASSUME TLCSet(1, 0)
TrHigh == TLCSet(1, IF TLCGet(1) > l THEN TLCGet(1) ELSE l)
TrAccepted == IF TLCGet(1) = Len(Trace) + 1 THEN TRUE
              ELSE PrintT(<<"TRACE-REJECTED-AT", TLCGet(1)>>) /\ FALSE

BadWhat(w) == \A o \in bad : o[2] # w
NoWrongAddress == BadWhat("wrongaddr") /\ BadWhat("wrongserver")     \* C14
NoDeadHandoutTr == BadWhat("deadhandout")                              \* C14
NoBusyClosed == BadWhat("busyclosed")                                  \* C15
AppendWithinLimit == BadWhat("appendfull")                             \* C13
CloseClosedAll == BadWhat("notclosed") /\ BadWhat("socketsleft")      \* C15 / C20
NoOtherError == BadWhat("othererror")
NoHealthyMarkedDead == BadWhat("deadhealthy")                          \* C19 / C14: only a connection that ended is given up
NoRawRefusal == BadWhat("rawrefusal")                                  \* C14: a call handed a dead connection is refused with ErrShutdown (what marks it dead)
NoDupSignal == BadWhat("dupsignal")                                    \* C02 at the pool level
NoDupExec == BadWhat("dupexec")                                        \* C04
================================================================================
