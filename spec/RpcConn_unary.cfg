SPECIFICATION Spec
CONSTANTS
  Calls = {1, 2, 3}
  Pings = {3}
  CtxCalls = {}
  FailCalls = {2}
  NoMethodCalls = {}
  CliPipe = FALSE
  CliDirect = FALSE
  SrvPipe = FALSE
  SrvDirect = FALSE
  MaxWFail = 1
  MaxMFail = 0
  MaxDup = 1
  MaxUnk = 1
  MaxCut = 1
  MaxLoss = 1
  MaxClose = 1
  Dev = {}
INVARIANTS
  TypeOK ReplyOwn SeqUnique EchoSeq AtMostOnce ResultStable CompletedHasResult Owed NotHeldOnceCompleted
  RefusedAfterShutdown SweepComplete AfterSweepAllDone
  ExecAtMostOnce ExecOnlySent PingNoExec OneResponsePerRequest OkImpliesExecOnce RespondedImpliesExec
  ExecInOrder AtMostOneExecuting RespInOrder CompInOrder
  ErrToOwner OkOnlyIfHandlerOk MarshalFailNoResidue AbandonedHarmless CtxDoneOnlyAfterSignal
PROPERTIES
  NoRegisterAfterShutdown ReceivedNotSwept
CHECK_DEADLOCK FALSE
