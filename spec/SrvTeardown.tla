------------------------------ MODULE SrvTeardown ------------------------------
(******************************************************************************)
(* Teardown protocol of one server connection (ServeCodec; the poll-mode branch  *)
(* of listen() follows the same steps once a reader has seen the end of the      *)
(* stream): reader, FIFO decode queue with one worker, handlers counted by a     *)
(* sync.WaitGroup, codec close, stream sweep, queue close.                       *)
(* Go's WaitGroup contract is an invariant here: an Add that starts from a zero   *)
(* counter must happen before Wait (otherwise "WaitGroup is reused before         *)
(* previous Wait has returned" / "Add called concurrently with Wait").            *)
(******************************************************************************)
EXTENDS Integers, TLC

CONSTANTS Frames,      \* how many request frames the peer sends before it disconnects
          Dev
Deviations == {"WaitBeforeDrain",      \* Wait is called while requests are still queued for decoding (code before fix D5c)
               "CloseBeforeWait"}      \* the codec is closed before the handlers are done
ASSUME Dev \subseteq Deviations

VARIABLES nleft,     \* frames the peer will still send
          sdq,       \* frames read, waiting for the decode worker
          wg,        \* WaitGroup counter (handlers dispatched and not finished)
          phase,     \* "serving" / "eof" / "waiting" / "waited" / "closed" / "done"
          misuse,    \* an Add from zero happened after Wait began
          late       \* a request was dispatched after the codec was closed
vars == <<nleft, sdq, wg, phase, misuse, late>>

Init == nleft = Frames /\ sdq = 0 /\ wg = 0 /\ phase = "serving" /\ misuse = FALSE /\ late = FALSE

Recv == phase = "serving" /\ nleft > 0 /\ nleft' = nleft - 1 /\ sdq' = sdq + 1 /\ UNCHANGED <<wg, phase, misuse, late>>
\* decode worker: ServeRequest: wg.Add(1), hand the request to a handler
Decode ==
    /\ sdq > 0 /\ phase # "done"
    /\ sdq' = sdq - 1 /\ wg' = wg + 1
    /\ misuse' = (misuse \/ (wg = 0 /\ phase \in {"waiting", "waited"}))
    /\ late' = (late \/ phase = "closed")
    /\ UNCHANGED <<nleft, phase>>
HandlerDone == wg > 0 /\ wg' = wg - 1 /\ UNCHANGED <<nleft, sdq, phase, misuse, late>>
\* the peer disconnects (at any point of its burst): the reader leaves its loop
EOF == phase = "serving" /\ phase' = "eof" /\ nleft' = 0 /\ UNCHANGED <<sdq, wg, misuse, late>>
\* intended: the reader lets the decode queue run dry (FIFO sentinel), then waits for the handlers
WaitBegin ==
    /\ phase = "eof" /\ (sdq = 0 \/ "WaitBeforeDrain" \in Dev)
    /\ phase' = "waiting" /\ UNCHANGED <<nleft, sdq, wg, misuse, late>>
WaitEnd == phase = "waiting" /\ (wg = 0 \/ "CloseBeforeWait" \in Dev) /\ phase' = "waited" /\ UNCHANGED <<nleft, sdq, wg, misuse, late>>
CodecClose == phase = "waited" /\ phase' = "closed" /\ UNCHANGED <<nleft, sdq, wg, misuse, late>>
QueuesClose == phase = "closed" /\ sdq = 0 /\ phase' = "done" /\ UNCHANGED <<nleft, sdq, wg, misuse, late>>

Next == Recv \/ Decode \/ HandlerDone \/ EOF \/ WaitBegin \/ WaitEnd \/ CodecClose \/ QueuesClose
Spec == Init /\ [][Next]_vars
LiveSpec == Spec /\ WF_vars(Decode \/ HandlerDone \/ WaitBegin \/ WaitEnd \/ CodecClose \/ QueuesClose)

NoAddAfterWaitBegin == ~misuse
HandlersDoneBeforeClose == phase \in {"closed", "done"} => wg = 0
NoDispatchAfterClose == ~late
TeardownCompletes == (phase = "eof") ~> (phase = "done")
================================================================================
