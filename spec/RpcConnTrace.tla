------------------------------ MODULE RpcConnTrace ------------------------------
(******************************************************************************)
(* Trace specification: replays a trace recorded from the real hslam/rpc code  *)
(* (hook events at linearisation points + wire/API events of the harness)      *)
(* against the actions of RpcConn.  Every event is one RpcConn action; what    *)
(* the event logged is bound to the action's parameters and post-state, what   *)
(* was not logged is left to the action.  Dev is the full deviation set here:  *)
(* the implementation's logged effects select the branch, and the invariants   *)
(* of the intended design judge every state the implementation went through.   *)
(* Several traces are concatenated; a "reset" event starts the next one.       *)
(******************************************************************************)
EXTENDS RpcConn, Json

CONSTANT MaxCallId

VARIABLES l,        \* position in Trace
          obsbad    \* observations at the API that contradict the model state

Trace == ndJsonDeserialize("trace.ndjson")

TrCalls == 1..MaxCallId
TrPings == {c \in TrCalls : c % 4 = 3}
TrFail  == {c \in TrCalls : c % 4 = 2}
TrCtx   == {c \in TrCalls : c % 4 = 0}
TrNoMethod == {c \in TrCalls : c % 8 = 6}

tvars == <<vars, l, obsbad>>

E == Trace[l]
IsEv(e) == l <= Len(Trace) /\ Trace[l].ev = e
Adv == l' = l + 1 /\ UNCHANGED obsbad
InCalls(c) == c \in Calls

KindStr(r) == r.kind

TrInit == Init /\ l = 1 /\ obsbad = {}

TrReset == IsEv("reset") /\ Reset /\ l' = l + 1 /\ UNCHANGED obsbad

TrStart == IsEv("api.start") /\ InCalls(E.c) /\ Start(E.c) /\ Adv

\* the write queue worker picks the next call just before its send() is observed
TrWqTake ==
    /\ l <= Len(Trace) /\ Trace[l].ev \in {"c.register", "c.refuse"}
    /\ InCalls(Trace[l].c) /\ cst[Trace[l].c] = "wq"
    /\ WqTake(Trace[l].c)
    /\ UNCHANGED <<l, obsbad>>

TrRegister ==
    /\ IsEv("c.register") /\ InCalls(E.c)
    /\ \E d1, d2 \in BOOLEAN : Register(E.c, d1, d2)
    /\ seqof'[E.c] = E.seq
    /\ Adv

TrRefuse == IsEv("c.refuse") /\ InCalls(E.c) /\ E.sent = 1 /\ Refuse(E.c) /\ Adv

TrWriteC2S ==
    /\ IsEv("w.write") /\ E.k = "c2s"
    /\ \E c \in Calls : seqof[c] = E.seq /\ cst[c] = "reg" /\ WriteOK(c)
    /\ (E.a = 1) <=> ~cut
    /\ Adv

\* the codec's closed flag is set lock-free between c.close and the socket close:
\* an internal step, taken when the next event needs it
TrClose2a ==
    /\ l <= Len(Trace) /\ Trace[l].ev \in {"c.badframe", "c.unregister", "w.close", "c.eofsweep"}
    /\ Close2a
    /\ UNCHANGED <<l, obsbad>>

TrUnregister ==
    /\ IsEv("c.unregister") /\ InCalls(E.c)
    /\ (E.b = 1) <=> (E.c \in pending)
    /\ \E d \in BOOLEAN :
          /\ WriteFailWith(E.c, WErr, d)
          /\ ncomp'[E.c] - ncomp[E.c] = (IF E.sent = 1 THEN 1 ELSE 0)
    /\ E.sent \in {1, -1}
    /\ UNCHANGED bvars
    /\ Adv

TrRecv == IsEv("c.recv") /\ ReaderRecv /\ Adv

TrDispatch ==
    /\ IsEv("c.dispatch")
    /\ rdq # <<>> /\ Head(rdq).seq = E.seq
    /\ (~codecClosed \/ Head(rdq).early) /\ ~shutdown       \* (the closed flag is tested ahead of the mutex, see ReaderDispatch)
    /\ (E.b % 2 = 1) <=> Head(rdq).err
    /\ LET hit == {c \in pending : seqof[c] = E.seq} IN
          IF E.c = 0 THEN hit = {} ELSE hit = {E.c}
    /\ \E d2 \in BOOLEAN : ReaderDispatch(E.s = 1, d2, FALSE) /\ Cardinality(pending') = E.b \div 2
    /\ Adv

TrDropShutdown ==
    /\ IsEv("c.dropshutdown") /\ shutdown
    /\ rdq # <<>> /\ Head(rdq).seq = E.seq /\ (~codecClosed \/ Head(rdq).early)
    /\ ReaderDispatch(FALSE, FALSE, FALSE)
    /\ Adv

TrBadFrame == IsEv("c.badframe") /\ codecClosed /\ ReaderDispatch(FALSE, FALSE, TRUE) /\ Adv

TrFinish ==
    /\ (IsEv("c.finish") \/ IsEv("c.errdone") \/ IsEv("c.ackdone"))
    /\ InCalls(E.c) /\ E.sent = 1
    /\ \E j \in 1..Len(fin) : fin[j].c = E.c
    /\ LET e == fin[FirstIdx(fin, E.c)] IN
          /\ (E.ev = "c.errdone") <=> e.f.err
          /\ (E.ev = "c.ackdone") <=> (E.c \in Pings /\ ~e.f.err)
    /\ \E d \in BOOLEAN : Finish(E.c, d, FALSE)
    /\ Adv

SetOf(s) == {s[i] : i \in 1..Len(s)}

TrEofSweep ==
    /\ IsEv("c.eofsweep")
    /\ E.k = ""                                  \* every swept call was signalled
    /\ \E d1, d2, d3 \in BOOLEAN :
          /\ ReaderEOF(E.a = 1, d1, d2, d3)
          /\ \A c \in Calls : (ncomp'[c] - ncomp[c] = (IF c \in SetOf(E.calls) THEN 1 ELSE 0))
          /\ Cardinality(pending') = E.b
    /\ Adv

TrClose1 == IsEv("c.close") /\ Close1 /\ Adv
TrCloseDup == IsEv("c.close.dup") /\ CloseDup /\ Adv
TrSockClose == IsEv("w.close") /\ E.k = "cli" /\ Close2b /\ Adv
TrClose2 == IsEv("c.close2") /\ sockClosed /\ UNCHANGED vars /\ Adv

TrCtxRet ==
    /\ IsEv("c.ctx.ret") /\ InCalls(E.c)
    /\ IF E.a = 0 THEN CtxReturnDone(E.c) ELSE CtxCancel(E.c)
    /\ Adv

\* ---- network / peer
TrCut ==
    /\ IsEv("env.cut")
    /\ Cut(E.a, E.b)
    /\ Adv

TrDup ==
    /\ IsEv("env.dup")
    /\ \E c \in Calls : InjectDup(c) /\ s2c'[Len(s2c')].seq = E.seq
    /\ Adv

TrUnk == IsEv("env.unk") /\ InjectUnk(E.a = 1) /\ Adv

\* ---- server connection
TrSrvRecv == IsEv("v.recv") /\ SrvRecv /\ Adv

TrSrvDecode ==
    /\ IsEv("v.dispatch")
    /\ sdq # <<>> /\ Head(sdq).seq = E.seq
    /\ \E d1 \in BOOLEAN : SrvDecode(d1, E.a >= 2, E.b = 1)     \* b = 1: answered without ever reaching handleRequest (look-ahead by the harness)
    /\ Adv

\* handleRequest of a request for a method the server does not have
TrLookupFail ==
    /\ IsEv("v.handle")
    /\ \E c \in NoMethodCalls : seqof[c] = E.seq /\ (\E d \in BOOLEAN : SrvLookupFail(c, d))
    /\ Adv

TrSrvDrop == IsEv("v.drop") /\ SrvDrop /\ Adv

TrExecBegin ==
    /\ IsEv("h.begin") /\ InCalls(E.c)
    /\ E.a = 1                                   \* the handler saw the arguments the client sent
    /\ \E d \in BOOLEAN : SrvExecBegin(E.c, d)
    /\ Adv

TrExecEnd == IsEv("h.end") /\ InCalls(E.c) /\ SrvExecEnd(E.c) /\ Adv

TrWriteS2C ==
    /\ IsEv("w.write") /\ E.k = "s2c"
    /\ \E c \in Calls : \E d \in BOOLEAN :
          /\ SrvRespond(c, d)
          /\ (E.a = 1) <=> ~cut
          /\ ~cut => /\ s2c'[Len(s2c')].seq = E.seq
                     /\ (s2c'[Len(s2c')].err <=> (E.b = 1))
                     /\ E.c = (IF c \in Pings THEN 0 ELSE c)   \* a heartbeat answer has no body
    /\ Adv

TrSrvEOF == IsEv("v.eof") /\ SrvEOF /\ Adv

\* ---- observations at the API, after the run has quiesced
ResKinds(c) == KindStr(res0[c]) \o "/" \o KindStr(res[c])

TrObsClosing == IsEv("obs.closing") /\ UNCHANGED vars /\ Adv

TrObsFinal ==
    /\ IsEv("obs.final") /\ InCalls(E.c)
    /\ UNCHANGED vars
    /\ l' = l + 1
    /\ LET c == E.c
           started == cst[c] # "new"
           cancelled == ctxst[c] = "cancelled"
           bad == IF ~started THEN {}
                  ELSE IF cancelled
                    THEN (IF E.k # "ctx/ctx" \/ E.a # 1 THEN {"ctx"} ELSE {})   \* returned the context's error, once
                  ELSE  (IF ncomp[c] # E.a THEN {"count"} ELSE {})               \* signals seen on Done vs counted by the model
                    \cup (IF E.k # ResKinds(c) THEN {"kind"} ELSE {})            \* outcome at first signal / at the end
                    \cup (IF res[c].kind = "ok" /\ c \notin Pings /\ (E.sent # res[c].val \/ E.b # 1)
                            THEN {"reply"} ELSE {})                              \* reply is F(own arguments), byte for byte
                    \cup (IF res[c].kind = "srverr" /\ E.sent # res[c].val THEN {"errtext"} ELSE {})
       IN obsbad' = obsbad \cup {<<l, c, w>> : w \in bad}

\* at the end of a run the connection has been closed: everything started has completed
TrObsEnd ==
    /\ IsEv("obs.end")
    /\ UNCHANGED vars
    /\ l' = l + 1
    /\ obsbad' = obsbad \cup {<<l, c, "hang">> : c \in {x \in Calls : cst[x] # "new" /\ ncomp[x] = 0 /\ ctxst[x] # "cancelled"}}

TrNext ==
    \/ TrReset \/ TrStart \/ TrWqTake \/ TrRegister \/ TrRefuse \/ TrWriteC2S \/ TrClose2a \/ TrUnregister
    \/ TrRecv \/ TrDispatch \/ TrDropShutdown \/ TrBadFrame \/ TrFinish \/ TrEofSweep
    \/ TrClose1 \/ TrCloseDup \/ TrSockClose \/ TrClose2 \/ TrCtxRet
    \/ TrCut \/ TrDup \/ TrUnk
    \/ TrSrvRecv \/ TrSrvDecode \/ TrLookupFail \/ TrSrvDrop \/ TrExecBegin \/ TrExecEnd \/ TrWriteS2C \/ TrSrvEOF
    \/ TrObsClosing \/ TrObsFinal \/ TrObsEnd

TrSpec == TrInit /\ [][TrNext]_tvars

\* ---- acceptance: the whole trace must be consumed by some behaviour.
\* TLC register 1 holds the highest position reached (single worker).
ASSUME TLCSet(1, 0)
TrHigh == TLCSet(1, IF TLCGet(1) > l THEN TLCGet(1) ELSE l)
TrAccepted == IF TLCGet(1) = Len(Trace) + 1 THEN TRUE
              ELSE PrintT(<<"TRACE-REJECTED-AT", TLCGet(1)>>) /\ FALSE

ObsWhat(w) == \A o \in obsbad : o[3] # w
ObsCount   == ObsWhat("count")     \* C02
ObsKind    == ObsWhat("kind")      \* C02 / C03
ObsReply   == ObsWhat("reply")     \* C01
ObsErrText == ObsWhat("errtext")   \* C06
ObsCtx     == ObsWhat("ctx")       \* C19
ObsHang    == ObsWhat("hang")      \* C03

TrView == <<vars, l, obsbad>>
================================================================================
