SPECIFICATION Spec
CONSTANTS
  Addrs = {"a"}
  ConnIds = {1, 2, 3}
  Callers = {1, 2}
  MaxConns = 2
  MaxIdle = 1
  KeepAlive = 1
  IdleTO = 2
  MaxClock = 4
  MaxCalls = 2
  MaxKills = 1
  Dev = {}
INVARIANTS PoolBound IdleBound OpenBound NoDuplicates PooledDisjoint NoLeak PooledRightAddress RecoveryBound CloseClosesAll
PROPERTIES NoDeadHandout SpareBusy RightAddress
CHECK_DEADLOCK FALSE
