SPECIFICATION TrSpec
CONSTANTS
  MaxCallId = 8
  Calls <- TrCalls
  Pings <- TrPings
  CtxCalls <- TrCtx
  FailCalls <- TrFail
  NoMethodCalls <- TrNoMethod
  CliPipe = FALSE
  CliDirect = FALSE
  SrvPipe = FALSE
  SrvDirect = FALSE
  MaxWFail = 100
  MaxMFail = 100
  MaxDup = 100
  MaxUnk = 100
  MaxCut = 100
  MaxLoss = 100
  MaxClose = 100
  Dev <- Deviations
CONSTRAINT TrHigh
POSTCONDITION TrAccepted
INVARIANTS
  ObsAgree
  ReplyOwn SeqUnique EchoSeq AtMostOnce ResultStable CompletedHasResult Owed NotHeldOnceCompleted
  RefusedAfterShutdown SweepComplete AfterSweepAllDone
  ExecAtMostOnce ExecOnlySent PingNoExec OneResponsePerRequest OkImpliesExecOnce RespondedImpliesExec
  ExecInOrder AtMostOneExecuting RespInOrder CompInOrder
  ErrToOwner OkOnlyIfHandlerOk MarshalFailNoResidue AbandonedHarmless CtxDoneOnlyAfterSignal
PROPERTIES
  NoRegisterAfterShutdown ReceivedNotSwept
CHECK_DEADLOCK FALSE
VIEW TrView
