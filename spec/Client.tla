--------------------------------- MODULE Client ---------------------------------
(******************************************************************************)
(* The load-balancing Client of hslam/rpc (client.go): target map, list of     *)
(* live targets with its cursor, latency estimates, the waiter table for        *)
(* callers that find no live target, the health detector and its probes,        *)
(* Fallback, Director and Close.  One action per critical section of            *)
(* Client.lock; the probe (Ping through the transport) runs outside the lock    *)
(* and is a pair of actions.                                                    *)
(******************************************************************************)
EXTENDS Integers, Sequences, FiniteSets, TLC

CONSTANTS
    Addrs,       \* addresses that can be targets
    Callers,     \* concurrent callers
    Policy,      \* "rr" / "random" / "lt"
    UpdateSets,  \* the target sets Update may install
    InitTargets, \* targets given to NewClient
    MaxDirector, \* how often the Director hook changes its answer
    MaxUpdates, MaxFlips, MaxCalls, MaxFallbacks,
    Lats,        \* latency samples (scaled integers) observed by calls
    MaxLat,      \* the "unreachable" latency (clientLatency)
    Dev,
    DevForced,   \* TRUE: a deviation in Dev is always taken (the deviated code), FALSE: it may be taken (trace validation)
    CtxCalls     \* TRUE: callers use CallWithContext and their context may end while the call is with the RoundTripper

Deviations == { "StaleProbeReinserts",  \* a probe of a replaced target object re-inserts its address
                "ListFromStaleMap",     \* Update leaves the old list in place
                "CursorNotAdvanced",    \* round robin does not advance
                "MaxInsteadOfMin",      \* least-time picks the slowest
                "ProbeEveryCall",       \* least-time probes on every call
                "LostWakeup",           \* check rebuilds the list but does not wake waiters
                "NoWakeOnClose",        \* Close does not release waiters
                "WaitAfterClose",       \* a caller registers as waiter after Close
                "TimeoutLeaks",         \* timeout leaves the waiter in the table
                "DetectNoWake",         \* detector tick does not wake waiters
                "DetectWakeNeedsProbe", \* the detector tick checks the waiters only on passes that started a probe (all targets alive: a
                                        \* caller parked during a Fallback pause is not released when the pause ends)
                "RebuildOnlyOnChange",  \* check rebuilds the live list only when the probed target's alive flag changed (a target a failed
                                        \* call already marked dead then stays in the list)
                "CtxMarksDead",         \* a context that ended is reported to the target like a failed dial
                "SpuriousRebuild" }     \* check rebuilds the live list (new order, cursor reset) although the live set did not change
ASSUME Dev \subseteq Deviations
DevChoice(d) == IF d \in Dev THEN (IF DevForced THEN {TRUE} ELSE BOOLEAN) ELSE {FALSE}
NoAddr == "none"

VARIABLES
    targets,    \* current target set                           (Client.targets keys)
    gen,        \* generation of the target objects (bumped by Update)
    talive,     \* talive[a]: target.alive of the current object for a
    lat,        \* lat[a]: latency estimate of the current object
    list,       \* live list (order = map iteration order at the last rebuild)
    lastSet,    \* address set of the last rebuild            (Client.last)
    pos,        \* cursor
    probeDue,   \* LeastTime: Tick has elapsed since the last probe
    waiters,    \* callers registered in the waiter table      (Client.pending)
    cst,        \* caller state: idle / waiting / woken / routed / done
    croute,     \* croute[k]: address the caller was routed to (NoAddr: none)
    cerr,       \* cerr[k]: "none" / "shutdown" / "timeout" / "dial" / "ctx"
    cvia,       \* cvia[k]: "target" (multi-target path, estimate updated) / "addr" (single target or Director)
    closed, fallback,
    probes,     \* probes in flight: set of <<addr, generation>>
    health,     \* health[a]: the address accepts connections
    director,   \* what the Director hook currently returns (NoAddr: empty string / no hook)
    nupd, nflip, ncall, nfb, ndir,
    \* ---- history ----
    dflip,      \* toggles at every detector pass (lets properties speak about "a pass")
    rrHist,     \* addresses chosen by round robin since the list last changed
    probedSinceTick  \* a probe route was taken since Tick last elapsed

vars == <<targets, gen, talive, lat, list, lastSet, pos, probeDue, waiters, cst, croute, cerr, cvia, closed, fallback,
          probes, health, director, nupd, nflip, ncall, nfb, ndir, dflip, rrHist, probedSinceTick>>

Range(s) == {s[i] : i \in 1..Len(s)}
Perms(S) == {s \in [1..Cardinality(S) -> S] : \A i, j \in 1..Cardinality(S) : i # j => s[i] # s[j]}
Min(S) == CHOOSE x \in S : \A y \in S : x <= y

Init ==
    /\ targets = InitTargets /\ gen = 0
    /\ talive = [a \in Addrs |-> FALSE]
    /\ lat = [a \in Addrs |-> MaxLat]
    /\ list = <<>> /\ lastSet = {} /\ pos = 0 /\ probeDue = TRUE
    /\ waiters = {} /\ cst = [k \in Callers |-> "idle"] /\ croute = [k \in Callers |-> NoAddr]
    /\ cerr = [k \in Callers |-> "none"] /\ cvia = [k \in Callers |-> "none"]
    /\ closed = FALSE /\ fallback = 0 /\ probes = {}
    /\ health = [a \in Addrs |-> TRUE] /\ director = NoAddr /\ ndir = 0
    /\ nupd = 0 /\ nflip = 0 /\ ncall = 0 /\ nfb = 0
    /\ rrHist = <<>> /\ probedSinceTick = FALSE /\ dflip = FALSE

--------------------------------------------------------------------------------
\* Update: new target objects (not alive, maximal latency), lists cleared.
Update(S, dStale) ==
    /\ nupd < MaxUpdates /\ S \in UpdateSets
    /\ nupd' = nupd + 1
    /\ targets' = S /\ gen' = gen + 1
    /\ talive' = [a \in Addrs |-> FALSE]
    /\ lat' = [a \in Addrs |-> MaxLat]
    /\ list' = IF dStale THEN list ELSE <<>>
    /\ lastSet' = IF dStale THEN lastSet ELSE {}
    /\ rrHist' = <<>>
    /\ UNCHANGED <<pos, probeDue, waiters, cst, croute, cerr, cvia, closed, fallback, probes, health, director,
                   nflip, ncall, nfb, ndir, dflip, probedSinceTick>>

\* checkPending: with no fallback in force and a live list, every waiter is released
Woken(ws) == [k \in Callers |-> IF k \in ws THEN "woken" ELSE cst[k]]

\* detector tick: a probe is started for every target not marked alive; waiters are checked
Detect(dNoWake) ==      \* (a pass already under way when Close is called still completes)
    /\ dflip' = ~dflip
    /\ probes' = probes \cup {<<a, gen>> : a \in {x \in targets : ~talive[x]}}
    /\ IF fallback = 0 /\ list # <<>> /\ ~dNoWake /\ ~("DetectWakeNeedsProbe" \in Dev /\ {x \in targets : ~talive[x]} = {})
         THEN /\ cst' = Woken(waiters) /\ waiters' = {}
         ELSE UNCHANGED <<cst, waiters>>
    /\ UNCHANGED <<targets, gen, talive, lat, list, lastSet, pos, probeDue, croute, cerr, cvia, closed, fallback, health, director,
                   nupd, nflip, ncall, nfb, ndir, rrHist, probedSinceTick>>

\* check(t): the Ping has returned; (ProbeEffect: the critical section; ProbeDone: for a probe in flight) under the lock the target object is marked and the live list rebuilt
\* from the *current* target map (in map iteration order: any order).
ProbeEffect(a, g, dReinsert, dNoWake) ==
    /\ probes' = probes \ {<<a, g>>}
    /\ LET ok == health[a]
           cur == g = gen /\ a \in targets
           ta == IF cur \/ (dReinsert /\ a \in Addrs) THEN [talive EXCEPT ![a] = ok] ELSE talive
           live == {x \in (IF dReinsert THEN targets \cup {a} ELSE targets) : ta[x]}
       IN
       /\ talive' = ta
       /\ lat' = [x \in Addrs |-> IF x \in targets /\ ~ta[x] THEN MaxLat ELSE lat[x]]
       /\ IF "RebuildOnlyOnChange" \in Dev /\ ta[a] = talive[a]
            THEN UNCHANGED <<lastSet, list, pos, rrHist, cst, waiters>>
          ELSE IF live # {}
            THEN /\ IF live # lastSet \/ "SpuriousRebuild" \in Dev
                      THEN /\ lastSet' = live
                           /\ list' \in Perms(live)
                           /\ pos' = 0
                           /\ rrHist' = IF live # lastSet THEN <<>> ELSE rrHist     \* the history restarts with a new live *set*
                      ELSE UNCHANGED <<lastSet, list, pos, rrHist>>
                 /\ IF fallback = 0 /\ ~dNoWake
                      THEN /\ cst' = Woken(waiters) /\ waiters' = {}
                      ELSE UNCHANGED <<cst, waiters>>
            ELSE /\ list' = <<>> /\ lastSet' = {} /\ rrHist' = <<>>
                 /\ UNCHANGED <<pos, cst, waiters>>
    /\ UNCHANGED <<targets, gen, probeDue, croute, cerr, cvia, closed, fallback, health, director, nupd, nflip, ncall, nfb, ndir, dflip, probedSinceTick>>

ProbeDone(a, g, dReinsert, dNoWake) == <<a, g>> \in probes /\ ProbeEffect(a, g, dReinsert, dNoWake)

--------------------------------------------------------------------------------
\* Routing (director()).
Routed(k, a, via) ==
    /\ cst' = [cst EXCEPT ![k] = "routed"]
    /\ croute' = [croute EXCEPT ![k] = a]
    /\ cvia' = [cvia EXCEPT ![k] = via]

RouteClosed(k) ==
    /\ cst[k] = "idle" /\ ncall < MaxCalls /\ closed
    /\ ncall' = ncall + 1
    /\ cst' = [cst EXCEPT ![k] = "done"] /\ cerr' = [cerr EXCEPT ![k] = "shutdown"]
    /\ UNCHANGED <<targets, gen, talive, lat, list, lastSet, pos, probeDue, waiters, croute, cvia, closed, fallback, probes, health,
                   director, nupd, nflip, nfb, ndir, dflip, rrHist, probedSinceTick>>

RouteDirector(k) ==
    /\ cst[k] = "idle" /\ ncall < MaxCalls /\ ~closed /\ fallback = 0 /\ director # NoAddr
    /\ ncall' = ncall + 1
    /\ Routed(k, director, "addr")
    /\ UNCHANGED <<targets, gen, talive, lat, list, lastSet, pos, probeDue, waiters, cerr, closed, fallback, probes, health,
                   director, nupd, nflip, nfb, ndir, dflip, rrHist, probedSinceTick>>

\* schedule(): the pick under the lock.  pr = TRUE: least-time probe.
Pick(k, dNoAdv, dMax, dProbeAlways) ==
    LET n == Len(list) IN
    IF n = 1
      THEN /\ Routed(k, list[1], "addr")
           /\ UNCHANGED <<pos, probeDue, rrHist, probedSinceTick>>
    ELSE IF Policy = "rr"
      THEN /\ Routed(k, list[pos + 1], "target")
           /\ pos' = IF dNoAdv THEN pos ELSE (pos + 1) % n
           /\ rrHist' = Append(rrHist, list[pos + 1])
           /\ UNCHANGED <<probeDue, probedSinceTick>>
    ELSE IF Policy = "random"
      THEN /\ \E i \in 1..n : Routed(k, list[i], "target")
           /\ UNCHANGED <<pos, probeDue, rrHist, probedSinceTick>>
    ELSE IF probeDue \/ dProbeAlways
      THEN /\ Routed(k, list[pos + 1], "target")
           /\ pos' = (pos + 1) % n
           /\ probeDue' = FALSE
           /\ probedSinceTick' = TRUE
           /\ UNCHANGED rrHist
      ELSE /\ \E a \in Range(list) :
                /\ IF dMax THEN \A b \in Range(list) : lat[a] >= lat[b]
                           ELSE \A b \in Range(list) : lat[a] <= lat[b]
                /\ Routed(k, a, "target")
           /\ UNCHANGED <<pos, probeDue, rrHist, probedSinceTick>>

RouteList(k, d1, d2, d3) ==
    /\ cst[k] = "idle" /\ ncall < MaxCalls /\ ~closed /\ fallback = 0 /\ director = NoAddr /\ list # <<>>
    /\ ncall' = ncall + 1
    /\ Pick(k, d1, d2, d3)
    /\ UNCHANGED <<targets, gen, talive, lat, list, lastSet, waiters, cerr, closed, fallback, probes, health, director, nupd, nflip, nfb, ndir, dflip>>

\* no live target (or a fallback in force): the caller registers as a waiter - unless the client was closed meanwhile
RouteWait(k, dAfterClose) ==
    /\ cst[k] = "idle" /\ ncall < MaxCalls
    /\ (~closed \/ dAfterClose)
    /\ (fallback > 0 \/ (director = NoAddr /\ list = <<>>))
    /\ ncall' = ncall + 1
    /\ cst' = [cst EXCEPT ![k] = "waiting"]
    /\ waiters' = waiters \cup {k}
    /\ UNCHANGED <<targets, gen, talive, lat, list, lastSet, pos, probeDue, croute, cerr, cvia, closed, fallback, probes, health, director,
                   nupd, nflip, nfb, ndir, dflip, rrHist, probedSinceTick>>

\* the woken caller schedules again (the list may have emptied meanwhile: ErrDial, reading R5)
WokenPick(k, d1, d2, d3) ==
    /\ cst[k] = "woken"
    /\ IF list # <<>>
         THEN Pick(k, d1, d2, d3) /\ UNCHANGED cerr
         ELSE /\ cst' = [cst EXCEPT ![k] = "done"] /\ cerr' = [cerr EXCEPT ![k] = "dial"]
              /\ UNCHANGED <<croute, cvia, pos, probeDue, rrHist, probedSinceTick>>
    /\ UNCHANGED <<targets, gen, talive, lat, list, lastSet, waiters, closed, fallback, probes, health, director, nupd, nflip, ncall, nfb, ndir, dflip>>

\* DialTimeout elapsed while waiting
Timeout(k, dLeak) ==
    /\ cst[k] = "waiting"
    /\ cst' = [cst EXCEPT ![k] = "done"] /\ cerr' = [cerr EXCEPT ![k] = "timeout"]
    /\ waiters' = IF dLeak THEN waiters ELSE waiters \ {k}
    /\ UNCHANGED <<targets, gen, talive, lat, list, lastSet, pos, probeDue, croute, cvia, closed, fallback, probes, health, director,
                   nupd, nflip, ncall, nfb, ndir, dflip, rrHist, probedSinceTick>>

\* woken by Close: ErrShutdown
Close(dNoWake) ==
    /\ ~closed
    /\ closed' = TRUE
    /\ IF dNoWake THEN UNCHANGED <<cst, cerr, waiters>>
       ELSE /\ cst' = [k \in Callers |-> IF k \in waiters THEN "done" ELSE cst[k]]
            /\ cerr' = [k \in Callers |-> IF k \in waiters THEN "shutdown" ELSE cerr[k]]
            /\ waiters' = {}
    /\ UNCHANGED <<targets, gen, talive, lat, list, lastSet, pos, probeDue, croute, cvia, fallback, probes, health, director,
                   nupd, nflip, ncall, nfb, ndir, dflip, rrHist, probedSinceTick>>

\* the call through the transport returned; on the multi-target path the estimate is updated (atomics, outside the lock)
CallDone(k, sample) ==
    /\ cst[k] = "routed"
    /\ LET a == croute[k]
           ok == a \in Addrs /\ health[a] IN
       /\ cst' = [cst EXCEPT ![k] = "done"]
       /\ cerr' = [cerr EXCEPT ![k] = IF ok THEN "none" ELSE "dial"]
       /\ IF cvia[k] = "target" /\ a \in Addrs
            THEN /\ talive' = [talive EXCEPT ![a] = ok]
                 /\ lat' = [lat EXCEPT ![a] = IF ~ok THEN MaxLat
                                               ELSE IF lat[a] >= MaxLat THEN sample
                                               ELSE (lat[a] * 4 + sample) \div 5]
            ELSE UNCHANGED <<talive, lat>>
    /\ UNCHANGED <<targets, gen, list, lastSet, pos, probeDue, waiters, croute, cvia, closed, fallback, probes, health, director,
                   nupd, nflip, ncall, nfb, ndir, dflip, rrHist, probedSinceTick>>

\* CallWithContext: the caller's context ends while the call is with the RoundTripper. The call returns the context's error at
\* once; to the target this is an outcome like any other that is not a failed dial (it stays alive, its estimate takes the
\* sample); no other caller, target or list is touched.
CtxEnd(k, sample) ==
    /\ cst[k] = "routed"
    /\ LET a == croute[k] IN
       /\ cst' = [cst EXCEPT ![k] = "done"]
       /\ cerr' = [cerr EXCEPT ![k] = "ctx"]
       /\ IF cvia[k] = "target" /\ a \in Addrs
            THEN IF "CtxMarksDead" \in Dev          \* deviation: the context's error is taken for a failed dial
                   THEN /\ talive' = [talive EXCEPT ![a] = FALSE]
                        /\ lat' = [lat EXCEPT ![a] = MaxLat]
                   ELSE /\ talive' = [talive EXCEPT ![a] = TRUE]
                        /\ lat' = [lat EXCEPT ![a] = IF lat[a] >= MaxLat THEN sample ELSE (lat[a] * 4 + sample) \div 5]
            ELSE UNCHANGED <<talive, lat>>
    /\ UNCHANGED <<targets, gen, list, lastSet, pos, probeDue, waiters, croute, cvia, closed, fallback, probes, health, director,
                   nupd, nflip, ncall, nfb, ndir, dflip, rrHist, probedSinceTick>>

Again(k) ==      \* the caller starts over with a new call
    /\ cst[k] = "done"
    /\ cst' = [cst EXCEPT ![k] = "idle"] /\ cerr' = [cerr EXCEPT ![k] = "none"]
    /\ croute' = [croute EXCEPT ![k] = NoAddr] /\ cvia' = [cvia EXCEPT ![k] = "none"]
    /\ UNCHANGED <<targets, gen, talive, lat, list, lastSet, pos, probeDue, waiters, closed, fallback, probes, health, director,
                   nupd, nflip, ncall, nfb, ndir, dflip, rrHist, probedSinceTick>>

--------------------------------------------------------------------------------
\* Environment.
FallbackBegin ==
    /\ nfb < MaxFallbacks /\ ~closed
    /\ nfb' = nfb + 1 /\ fallback' = fallback + 1 /\ ndir' = ndir /\ dflip' = dflip
    /\ UNCHANGED <<targets, gen, talive, lat, list, lastSet, pos, probeDue, waiters, cst, croute, cerr, cvia, closed, probes, health,
                   director, nupd, nflip, ncall, rrHist, probedSinceTick>>
FallbackEnd ==
    /\ fallback > 0
    /\ fallback' = fallback - 1
    /\ UNCHANGED <<targets, gen, talive, lat, list, lastSet, pos, probeDue, waiters, cst, croute, cerr, cvia, closed, probes, health,
                   director, nupd, nflip, ncall, nfb, ndir, dflip, rrHist, probedSinceTick>>
Flip(a) ==
    /\ nflip < MaxFlips
    /\ nflip' = nflip + 1
    /\ health' = [health EXCEPT ![a] = ~@]
    /\ UNCHANGED <<targets, gen, talive, lat, list, lastSet, pos, probeDue, waiters, cst, croute, cerr, cvia, closed, fallback, probes,
                   director, nupd, ncall, nfb, ndir, dflip, rrHist, probedSinceTick>>
SetDirector(a) ==     \* the Director hook starts answering a (NoAddr: the empty string)
    /\ ndir < MaxDirector /\ a # director
    /\ ndir' = ndir + 1 /\ dflip' = dflip
    /\ director' = a
    /\ UNCHANGED <<targets, gen, talive, lat, list, lastSet, pos, probeDue, waiters, cst, croute, cerr, cvia, closed, fallback, probes, health,
                   nupd, nflip, ncall, nfb, rrHist, probedSinceTick>>
TickElapsed ==
    /\ Policy = "lt" /\ ~probeDue
    /\ probeDue' = TRUE /\ probedSinceTick' = FALSE
    /\ UNCHANGED <<targets, gen, talive, lat, list, lastSet, pos, waiters, cst, croute, cerr, cvia, closed, fallback, probes, health,
                   director, nupd, nflip, ncall, nfb, ndir, dflip, rrHist>>

LibraryStep ==
    \/ \E d \in DevChoice("DetectNoWake") : Detect(d)
    \/ \E a \in Addrs : \E g \in 0..MaxUpdates : \E d1 \in DevChoice("StaleProbeReinserts") : \E d2 \in DevChoice("LostWakeup") : ProbeDone(a, g, d1, d2)
    \/ \E k \in Callers : \E d1 \in DevChoice("CursorNotAdvanced") : \E d2 \in DevChoice("MaxInsteadOfMin") : \E d3 \in DevChoice("ProbeEveryCall") : WokenPick(k, d1, d2, d3)
    \/ FallbackEnd

Next ==
    \/ LibraryStep
    \/ \E S \in UpdateSets : \E d \in DevChoice("ListFromStaleMap") : Update(S, d)
    \/ \E k \in Callers : RouteClosed(k) \/ RouteDirector(k)
    \/ \E k \in Callers : \E d1 \in DevChoice("CursorNotAdvanced") : \E d2 \in DevChoice("MaxInsteadOfMin") : \E d3 \in DevChoice("ProbeEveryCall") : RouteList(k, d1, d2, d3)
    \/ \E k \in Callers : \E d \in DevChoice("WaitAfterClose") : RouteWait(k, d)
    \/ \E k \in Callers : \E d \in DevChoice("TimeoutLeaks") : Timeout(k, d)
    \/ \E d \in DevChoice("NoWakeOnClose") : Close(d)
    \/ \E k \in Callers : \E s \in Lats : CallDone(k, s)
    \/ \E k \in Callers : \E s \in Lats : CtxCalls /\ CtxEnd(k, s)
    \/ \E k \in Callers : Again(k)
    \/ FallbackBegin \/ \E a \in Addrs : Flip(a)
    \/ \E a \in Addrs \cup {NoAddr} : SetDirector(a)
    \/ TickElapsed

Spec == Init /\ [][Next]_vars
LiveSpec == Spec /\ WF_vars(LibraryStep)

--------------------------------------------------------------------------------
\* ============================ PROPERTIES =================================
\* ---- C16
ListFromTargets == Range(list) \subseteq targets /\ lastSet \subseteq targets
RouteInTargets ==     \* at the time of routing the address is a current target or the Director's answer
    [][\A k \in Callers : (cst[k] \in {"idle", "woken"} /\ cst'[k] = "routed")
            => (croute'[k] \in targets \/ (croute'[k] = director /\ director # NoAddr))]_vars
ListNoDup == \A i, j \in 1..Len(list) : i # j => list[i] # list[j]
CursorInRange == list # <<>> => pos < Len(list)

\* ---- C17
\* any n consecutive round-robin routes over a stable n-target list go to n distinct targets
RRDistinct ==
    Policy = "rr" /\ Len(list) >= 2 =>
        LET n == Len(list) h == rrHist m == Len(rrHist) IN
        \A i \in 1..m : \A j \in 1..m : (i < j /\ j - i < n) => h[i] # h[j]
RandomInList == [][\A k \in Callers : (cst'[k] = "routed" /\ cst[k] # "routed" /\ cvia'[k] = "target") => croute'[k] \in Range(list)]_vars
LeastTimeMinimal ==    \* a non-probe pick has a minimal estimate
    [][\A k \in Callers : (Policy = "lt" /\ cst'[k] = "routed" /\ cst[k] # "routed" /\ cvia'[k] = "target" /\ probeDue' = probeDue)
            => \A b \in Range(list) : lat[croute'[k]] <= lat[b]]_vars
ProbeOncePerTick ==    \* at most one probe between two expiries of Tick
    [][(probedSinceTick /\ probedSinceTick') => (pos' = pos \/ Policy # "lt" \/ list' # list)]_vars
LatBounded == \A a \in Addrs : lat[a] >= 0 /\ lat[a] <= MaxLat
DeadIsMax == \A a \in targets : (~talive[a] /\ <<a, gen>> \notin probes) => (lat[a] = MaxLat \/ a \in Range(list))

\* ---- C18
NoWaitAfterClose == closed => waiters = {}
WaiterOwed == \A k \in Callers : (cst[k] = "waiting") => (k \in waiters)    \* until woken, timed out or closed
WaitersAreWaiting == \A k \in waiters : cst[k] = "waiting"
\* a detector pass releases the callers waiting while a target is live and no fallback is in force
DetectReleases == [][dflip' # dflip => ((fallback = 0 /\ list # <<>>) => waiters' = {})]_vars
\* so does the completion of a probe that leaves a live list
ProbeReleases == [][(probes' # probes /\ dflip' = dflip /\ Cardinality(probes') < Cardinality(probes)) => ((fallback = 0 /\ list' # <<>>) => waiters' = {})]_vars
\* a probe of a current target that finds it down leaves it out of the live list
ProbeDropsDead ==
    [][\A a \in Addrs : (<<a, gen>> \in probes /\ <<a, gen>> \notin probes' /\ a \in targets /\ ~talive'[a]) => a \notin Range(list')]_vars
ErrKinds == \A k \in Callers : cst[k] = "done" => cerr[k] \in {"none", "shutdown", "timeout", "dial"} \cup (IF CtxCalls THEN {"ctx"} ELSE {})
\* C19 at this layer: a context that ends takes its own call out and nothing else - no other caller changes state, the lists and
\* the waiter table stay as they are, and the target the call was with is not taken for unreachable
CtxHarmless ==
    [][\A k \in Callers : (cerr'[k] = "ctx" /\ cerr[k] # "ctx") =>
          /\ list' = list /\ waiters' = waiters /\ targets' = targets /\ pos' = pos
          /\ \A j \in Callers \ {k} : cst'[j] = cst[j] /\ cerr'[j] = cerr[j]
          /\ (cvia[k] = "target" /\ croute[k] \in Addrs => talive'[croute[k]])]_vars
ClosedFailsAtOnce == [][\A k \in Callers : (closed /\ cst[k] = "idle" /\ cst'[k] # "idle") => (cst'[k] = "done" /\ cerr'[k] = "shutdown")]_vars
\* liveness (fair detector/probes): waiters are released once a target is live and no fallback is in force; Close releases them
WaitersReleased == (list # <<>> /\ fallback = 0) ~> (waiters = {} \/ list = <<>> \/ fallback > 0)
CloseReleases == closed ~> (waiters = {})
DeadStopsReceiving == \A a \in Addrs : [](a \in targets /\ ~health[a] /\ ~talive[a]) => <>(a \notin Range(list))
================================================================================
