SPECIFICATION Spec
CONSTANTS
  Addrs = {"a", "b"}
  Callers = {1, 2}
  Policy = "rr"
  UpdateSets = {{"a", "b"}, {"b"}}
  InitTargets = {"a", "b"}
  MaxDirector = 0
  MaxUpdates = 1
  MaxFlips = 1
  MaxCalls = 3
  MaxFallbacks = 1
  Lats = {10}
  MaxLat = 100
  Dev = {}
  DevForced = FALSE
INVARIANTS ListFromTargets ListNoDup CursorInRange RRDistinct LatBounded NoWaitAfterClose WaiterOwed WaitersAreWaiting ErrKinds
PROPERTIES RouteInTargets RandomInList LeastTimeMinimal ProbeOncePerTick ClosedFailsAtOnce
CHECK_DEADLOCK FALSE
