SPECIFICATION Spec
CONSTANTS
  Addrs = {"a", "b", "c"}
  Callers = {1, 2}
  Policy = "rr"
  UpdateSets = {{"a", "b"}, {"b", "c"}, {"a", "b", "c"}}
  MaxUpdates = 1
  MaxFlips = 1
  MaxCalls = 3
  MaxFallbacks = 1
  Lats = {10, 30}
  MaxLat = 100
  Dev = {}
INVARIANTS ListFromTargets ListNoDup CursorInRange RRDistinct LatBounded NoWaitAfterClose WaiterOwed WaitersAreWaiting ErrKinds
PROPERTIES RouteInTargets RandomInList LeastTimeMinimal ProbeOncePerTick ClosedFailsAtOnce
CHECK_DEADLOCK FALSE
