------------------------------- MODULE BuffersCtx -------------------------------
(* Context-buffer placement rule (C11 / C19): a reply is placed in the caller-supplied buffer iff its capacity
   suffices; nothing is written beyond the reply's length.  TLC enumerates capacity x reply-length cases. *)
EXTENDS Integers, TLC, Json
CtxPlacement(cap, len) == IF len > 0 /\ cap >= len THEN "in_buffer" ELSE "fresh"
CtxCases == {[cap |-> c, len |-> l] : c \in {0, 15, 16, 17, 64, 70000}, l \in {0, 1, 16, 17, 600}}
VARIABLE cc
CInit == cc \in CtxCases
CNext == UNCHANGED cc
CSpec == CInit /\ [][CNext]_cc
EmitCtx == PrintT(<<"CTX", ToJson([c |-> cc, placement |-> CtxPlacement(cc.cap, cc.len)])>>)
================================================================================
