SPECIFICATION Spec
CONSTANTS
  Streams = {1, 2}
  MaxPush = 2
  MaxSend = 1
  Poll = FALSE
  AllowCut = TRUE
  AllowClose = TRUE
  Dev = {}
INVARIANTS ClientGetsPrefix ServerGetsPrefix NoLoss NoLossToServer StreamsStoppedAfterLoss
PROPERTIES SiblingsUndisturbed
CHECK_DEADLOCK FALSE
