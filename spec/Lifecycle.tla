------------------------------- MODULE Lifecycle -------------------------------
(******************************************************************************)
(* Resources of hslam/rpc's four closable objects and the steps that create and  *)
(* release them: a non-poll Server (listener, accept loop, per-connection         *)
(* ServeCodec goroutine with its queues, handlers, stream handlers, accepted      *)
(* sockets), client Conns (socket, reader goroutine; the per-connection task      *)
(* queues own no goroutine while idle - hslam/scheduler workers exit when their   *)
(* queue is empty - so they are not resources here),                              *)
(* a Transport (pooled Conns, housekeeping goroutine) and a Client over that      *)
(* Transport (detector goroutine, probe goroutines, Fallback timer goroutines,    *)
(* parked callers).  Usage before Close: calls in flight (handler held), open     *)
(* streams, parked callers, peers that died; then the participants are closed in  *)
(* any order, any number of times.                                               *)
(*                                                                            *)
(* One action per critical section of the code:                                   *)
(*   Conn.Close           : flag under conn.mutex, then codec.Close               *)
(*   recv tail            : CliReaderExit (sweep, queues closed)                  *)
(*   ServeCodec tail      : SrvReaderEOF (leaves the read loop), SrvWaitDone       *)
(*                          (wg.Wait over, codec closed, streams swept)           *)
(*   Server.Close         : listeners closed; AcceptExit = Accept fails, Listen's  *)
(*                          deferred cleanup closes every accepted connection     *)
(*   Transport.Close      : CAS on closed, pooled Conns closed, done closed;       *)
(*                          TRunExit = housekeeping goroutine sees done            *)
(*   Transport.getConn    : TGet (first use starts the housekeeping goroutine;     *)
(*                          dials under connsMu)                                  *)
(*   Client.Close         : under Client.lock: Transport.Close, CAS, done closed,  *)
(*                          parked callers woken; KRunExit, KFbExit                *)
(*   Client.detect/check  : KProbeStart (go check under the lock),                *)
(*                          KProbePing (the probe's Transport.Ping -> getConn)     *)
(******************************************************************************)
EXTENDS Integers, FiniteSets, TLC, Json

CONSTANTS DConns,       \* client Conns dialled directly by the user
          PConns,       \* Conns the Transport may dial (pool slots)
          UseClient,    \* TRUE: a Client owns the Transport and is the thing the user closes
          MaxRepeat,    \* how many times each Close may be called
          MaxOps,       \* bound on usage operations (calls, streams, fallbacks) per behaviour
          Dev,          \* deviations from the intended design (catalogue below)
          SettledAPI    \* TRUE: user-level actions happen only when no internal step is pending (replay generation)

Deviations == {"CloseRefusedAfterShutdown",  \* Conn.Close answers ErrShutdown once the reader has seen the end, socket left open
               "TransportKeepsTicker",       \* Transport.Close does not stop the housekeeping goroutine
               "TransportSkipsIdle",         \* Transport.Close leaves one pooled connection open
               "ClientKeepsDetector",        \* Client.Close does not stop the detector goroutine
               "ClientKeepsFallback",        \* Fallback timer goroutines are not released by Close
               "ClientKeepsWaiters",         \* parked callers are not woken by Close
               "ListenKeepsAccepted",        \* Listen's cleanup does not close accepted connections
               "ServeSkipsStreamSweep",      \* ServeCodec tail does not close the connection's streams
               "GetConnAfterClose",          \* getConn on a closed Transport still dials / starts housekeeping
               "SecondCloseNil",             \* a second Conn.Close returns nil
               "TransportCloseTwice"}        \* a second Transport.Close closes the done channel again (panic)
ASSUME Dev \subseteq Deviations
Conns == DConns \cup PConns

VARIABLES srv,        \* "off" / "listening" / "closed"
          accept,     \* the accept loop (and the listener socket) is alive
          listenRet,  \* Listen has returned
          conn,       \* per Conn: see NoConn
          tr,         \* Transport
          kl,         \* Client
          rets,       \* return values of Close calls: set of [obj, n, val]
          nops,       \* usage operations so far
          panicked
vars == <<srv, accept, listenRet, conn, tr, kl, rets, nops, panicked>>

NoConn == [st |-> "none",      \* "none" / "open" (dialled)
           csock |-> FALSE,    \* client-side socket open
           reader |-> FALSE,   \* recv goroutine alive
           closing |-> FALSE, shutdown |-> FALSE,
           ssock |-> FALSE,    \* accepted socket open
           serve |-> "none",   \* ServeCodec goroutine: "none" / "reading" / "waiting"
           hrun |-> 0,         \* handlers executing (held by the user's handler code)
           strm |-> 0,         \* stream handlers executing
           calls |-> 0,        \* calls registered at the client
           cstrm |-> 0,        \* client streams open
           ncl |-> 0]          \* Close calls so far

Init == /\ srv = "off" /\ accept = FALSE /\ listenRet = FALSE
        /\ conn = [c \in Conns |-> NoConn]
        /\ tr = [used |-> FALSE, closed |-> FALSE, stopped |-> FALSE, run |-> FALSE, ncl |-> 0]
        /\ kl = [made |-> FALSE, closed |-> FALSE, run |-> FALSE, fb |-> 0, waiters |-> 0, probe |-> "idle", ncl |-> 0]
        /\ rets = {} /\ nops = 0 /\ panicked = FALSE

Up(c) == conn[c].csock /\ conn[c].ssock     \* both ends of the connection are open
\* no autonomous step is pending (the guards of the internal actions, spelled out)
Settled == /\ ~(srv = "closed" /\ accept)
           /\ ~(tr.run /\ tr.stopped /\ "TransportKeepsTicker" \notin Dev)
           /\ ~(kl.run /\ kl.closed /\ "ClientKeepsDetector" \notin Dev)
           /\ ~(kl.fb > 0 /\ kl.closed /\ "ClientKeepsFallback" \notin Dev)
           /\ \A c \in Conns : /\ ~(conn[c].reader /\ ~Up(c))
                                /\ ~(conn[c].serve = "reading" /\ ~Up(c))
                                /\ ~(conn[c].serve = "waiting" /\ conn[c].hrun = 0)
ApiOK == ~SettledAPI \/ Settled
\* nothing of the library is in motion: no autonomous step pending and no probe goroutine between its start and its ping
Quiet == Settled /\ kl.probe = "idle"

--------------------------------------------------------------------------------
\* ---- internal steps (library goroutines)
AcceptExit ==
    /\ srv = "closed" /\ accept
    /\ accept' = FALSE /\ listenRet' = TRUE
    /\ conn' = [c \in Conns |-> IF conn[c].ssock /\ "ListenKeepsAccepted" \notin Dev THEN [conn[c] EXCEPT !.ssock = FALSE] ELSE conn[c]]
    /\ UNCHANGED <<srv, tr, kl, rets, nops, panicked>>

CliReaderExit(c) ==
    /\ conn[c].reader /\ ~Up(c)
    /\ conn' = [conn EXCEPT ![c].reader = FALSE, ![c].shutdown = TRUE, ![c].calls = 0, ![c].cstrm = 0]
    /\ UNCHANGED <<srv, accept, listenRet, tr, kl, rets, nops, panicked>>

SrvReaderEOF(c) ==
    /\ conn[c].serve = "reading" /\ ~Up(c)
    /\ conn' = [conn EXCEPT ![c].serve = "waiting"]
    /\ UNCHANGED <<srv, accept, listenRet, tr, kl, rets, nops, panicked>>

SrvWaitDone(c) ==
    /\ conn[c].serve = "waiting" /\ conn[c].hrun = 0
    /\ conn' = [conn EXCEPT ![c].serve = "none", ![c].ssock = FALSE,
                            ![c].strm = IF "ServeSkipsStreamSweep" \in Dev THEN @ ELSE 0]
    /\ UNCHANGED <<srv, accept, listenRet, tr, kl, rets, nops, panicked>>

TRunExit ==
    /\ tr.run /\ tr.stopped /\ "TransportKeepsTicker" \notin Dev
    /\ tr' = [tr EXCEPT !.run = FALSE]
    /\ UNCHANGED <<srv, accept, listenRet, conn, kl, rets, nops, panicked>>

KRunExit ==
    /\ kl.run /\ kl.closed /\ "ClientKeepsDetector" \notin Dev
    /\ kl' = [kl EXCEPT !.run = FALSE]
    /\ UNCHANGED <<srv, accept, listenRet, conn, tr, rets, nops, panicked>>

KFbExit ==
    /\ kl.fb > 0 /\ kl.closed /\ "ClientKeepsFallback" \notin Dev
    /\ kl' = [kl EXCEPT !.fb = @ - 1]
    /\ UNCHANGED <<srv, accept, listenRet, conn, tr, rets, nops, panicked>>

\* the body of getConn when it has to dial: a fresh pooled connection (the server accepts it) or a failed dial
DialInto(p) ==
    IF srv = "listening"
    THEN [conn EXCEPT ![p] = [NoConn EXCEPT !.st = "open", !.csock = TRUE, !.reader = TRUE, !.ssock = TRUE, !.serve = "reading"]]
    ELSE conn
FreeSlot == {p \in PConns : conn[p].st = "none"}
Pooled == {p \in PConns : conn[p].st = "open" /\ ~conn[p].closing}

CloseEffect(c) ==     \* what one Conn.Close does to the connection record, and what it returns
    LET r == conn[c] IN
    IF r.closing \/ ("CloseRefusedAfterShutdown" \in Dev /\ r.shutdown)
    THEN <<[r EXCEPT !.ncl = @ + 1], IF "SecondCloseNil" \in Dev /\ r.closing THEN "nil" ELSE "ErrShutdown">>
    ELSE <<[r EXCEPT !.closing = TRUE, !.csock = FALSE, !.ncl = @ + 1], "nil">>
\* the detector launches a probe of a target it considers dead (under Client.lock); the detector may run one more pass
\* after Close (it only looks at done between passes)
KProbeStart ==
    /\ kl.made /\ kl.run /\ kl.probe = "idle" /\ nops < MaxOps
    /\ ApiOK /\ (SettledAPI => ~kl.closed)      \* (replays cannot place the detector's last pass after Close)
    /\ kl' = [kl EXCEPT !.probe = "started"]
    /\ nops' = nops + 1
    /\ UNCHANGED <<srv, accept, listenRet, conn, tr, rets, panicked>>
\* the probe's Transport.Ping: getConn, then a ping on the connection it returned.  getConn hands out a pooled connection
\* (even one whose peer has gone: the first caller to see ErrShutdown on it closes it), or dials, and its first use starts
\* the housekeeping goroutine.  The connection stays pooled.
DeadPooled == {p \in Pooled : conn[p].shutdown}
KProbePing ==
    /\ kl.probe = "started" /\ ApiOK
    /\ kl' = [kl EXCEPT !.probe = "idle"]
    /\ IF tr.closed /\ "GetConnAfterClose" \notin Dev
       THEN UNCHANGED <<conn, tr>>                          \* refused: the Transport is closed
       ELSE /\ tr' = [tr EXCEPT !.used = TRUE, !.run = TRUE]
            /\ IF DeadPooled # {} THEN LET p == CHOOSE q \in DeadPooled : TRUE IN conn' = [conn EXCEPT ![p] = CloseEffect(p)[1]]
               ELSE IF Pooled # {} \/ FreeSlot = {} THEN UNCHANGED conn
               ELSE conn' = DialInto(CHOOSE p \in FreeSlot : TRUE)
    /\ UNCHANGED <<srv, accept, listenRet, rets, nops, panicked>>

Internal == \/ AcceptExit \/ TRunExit \/ KRunExit \/ KFbExit
            \/ \E c \in Conns : CliReaderExit(c) \/ SrvReaderEOF(c) \/ SrvWaitDone(c)


--------------------------------------------------------------------------------
\* ---- user-level actions
SrvListen ==
    /\ ApiOK /\ srv = "off"
    /\ srv' = "listening" /\ accept' = TRUE
    /\ UNCHANGED <<listenRet, conn, tr, kl, rets, nops, panicked>>

SrvClose ==
    /\ ApiOK /\ srv # "off" /\ Cardinality({r \in rets : r.obj = "server"}) < MaxRepeat
    /\ srv' = "closed"
    /\ rets' = rets \cup {[obj |-> "server", n |-> Cardinality({r \in rets : r.obj = "server"}) + 1, val |-> "nil"]}
    /\ UNCHANGED <<accept, listenRet, conn, tr, kl, nops, panicked>>

Dial(c) ==
    /\ ApiOK /\ c \in DConns /\ conn[c].st = "none" /\ srv = "listening"
    /\ conn' = DialInto(c)
    /\ UNCHANGED <<srv, accept, listenRet, tr, kl, rets, nops, panicked>>

\* a call whose handler is held by the user's code (direct connection)
StartCall(c) ==
    /\ ApiOK /\ c \in DConns /\ conn[c].st = "open" /\ Up(c) /\ conn[c].serve = "reading" /\ ~conn[c].closing /\ ~conn[c].shutdown
    /\ conn[c].calls = 0 /\ nops < MaxOps
    /\ conn' = [conn EXCEPT ![c].calls = 1, ![c].hrun = 1]
    /\ nops' = nops + 1
    /\ UNCHANGED <<srv, accept, listenRet, tr, kl, rets, panicked>>
OpenStream(c) ==
    /\ ApiOK /\ c \in DConns /\ conn[c].st = "open" /\ Up(c) /\ conn[c].serve = "reading" /\ ~conn[c].closing /\ ~conn[c].shutdown
    /\ conn[c].cstrm = 0 /\ nops < MaxOps
    /\ conn' = [conn EXCEPT ![c].cstrm = 1, ![c].strm = 1]
    /\ nops' = nops + 1
    /\ UNCHANGED <<srv, accept, listenRet, tr, kl, rets, panicked>>
\* the user's handler returns (the response completes the call if the connection is still up)
Release(c) ==
    /\ ApiOK /\ conn[c].hrun = 1
    /\ conn' = [conn EXCEPT ![c].hrun = 0, ![c].calls = IF Up(c) /\ conn[c].reader THEN 0 ELSE @]
    /\ UNCHANGED <<srv, accept, listenRet, tr, kl, rets, nops, panicked>>

ConnClose(c) ==
    /\ ApiOK /\ c \in DConns /\ conn[c].st = "open" /\ conn[c].ncl < MaxRepeat
    /\ conn' = [conn EXCEPT ![c] = CloseEffect(c)[1]]
    /\ rets' = rets \cup {[obj |-> c, n |-> conn[c].ncl + 1, val |-> CloseEffect(c)[2]]}
    /\ UNCHANGED <<srv, accept, listenRet, tr, kl, nops, panicked>>

\* a call through the Transport (or through the Client), handler held
TCall ==
    /\ ApiOK /\ ~tr.closed /\ (UseClient => kl.made /\ ~kl.closed /\ kl.fb = 0) /\ nops < MaxOps /\ srv = "listening"
    /\ DeadPooled = {}
    /\ \E p \in IF Pooled # {} THEN Pooled ELSE FreeSlot :
          LET cn == IF conn[p].st = "none" THEN DialInto(p) ELSE conn IN
          /\ cn[p].calls = 0 /\ cn[p].csock /\ cn[p].ssock /\ cn[p].serve = "reading" /\ ~cn[p].shutdown
          /\ conn' = [cn EXCEPT ![p].calls = 1, ![p].hrun = 1]
    /\ tr' = [tr EXCEPT !.used = TRUE, !.run = TRUE]
    /\ nops' = nops + 1
    /\ UNCHANGED <<srv, accept, listenRet, kl, rets, panicked>>

TransportCloseEffect ==     \* Transport.Close: returns <<tr', conn'>>
    IF tr.closed
    THEN <<[tr EXCEPT !.ncl = @ + 1], conn>>
    ELSE IF ~tr.used THEN <<[tr EXCEPT !.closed = TRUE, !.ncl = @ + 1], conn>>
    ELSE LET keep == IF "TransportSkipsIdle" \in Dev /\ Pooled # {} THEN {CHOOSE p \in Pooled : TRUE} ELSE {} IN
         <<[tr EXCEPT !.closed = TRUE, !.stopped = TRUE, !.ncl = @ + 1],
           [c \in Conns |-> IF c \in PConns /\ conn[c].st = "open" /\ c \notin keep THEN CloseEffect(c)[1] ELSE conn[c]]>>
TClose ==
    /\ ApiOK /\ ~UseClient /\ tr.ncl < MaxRepeat
    /\ tr' = TransportCloseEffect[1] /\ conn' = TransportCloseEffect[2]
    /\ panicked' = (panicked \/ ("TransportCloseTwice" \in Dev /\ tr.closed /\ tr.used))
    /\ rets' = rets \cup {[obj |-> "transport", n |-> tr.ncl + 1, val |-> "nil"]}
    /\ UNCHANGED <<srv, accept, listenRet, kl, nops>>

KNew ==
    /\ ApiOK /\ UseClient /\ ~kl.made
    /\ kl' = [kl EXCEPT !.made = TRUE, !.run = TRUE]
    /\ UNCHANGED <<srv, accept, listenRet, conn, tr, rets, nops, panicked>>
KFallback ==
    /\ ApiOK /\ kl.made /\ ~kl.closed /\ kl.fb < 2 /\ nops < MaxOps
    /\ kl' = [kl EXCEPT !.fb = @ + 1]
    /\ nops' = nops + 1
    /\ UNCHANGED <<srv, accept, listenRet, conn, tr, rets, panicked>>
\* a caller parks: no target is live as far as the Client knows (or a Fallback period is running)
KPark ==
    /\ ApiOK /\ kl.made /\ ~kl.closed /\ kl.waiters < 2 /\ nops < MaxOps
    /\ kl' = [kl EXCEPT !.waiters = @ + 1]
    /\ nops' = nops + 1
    /\ UNCHANGED <<srv, accept, listenRet, conn, tr, rets, panicked>>
KClose ==
    /\ ApiOK /\ kl.made /\ kl.ncl < MaxRepeat
    /\ tr' = TransportCloseEffect[1] /\ conn' = TransportCloseEffect[2]
    /\ kl' = [kl EXCEPT !.closed = TRUE, !.ncl = @ + 1,
                        !.waiters = IF kl.closed \/ "ClientKeepsWaiters" \in Dev THEN @ ELSE 0]
    /\ rets' = rets \cup {[obj |-> "client", n |-> kl.ncl + 1, val |-> "nil"]}
    /\ UNCHANGED <<srv, accept, listenRet, nops, panicked>>

Api == \/ SrvListen \/ SrvClose \/ TCall \/ TClose \/ KNew \/ KFallback \/ KPark \/ KClose
       \/ \E c \in Conns : Dial(c) \/ StartCall(c) \/ OpenStream(c) \/ Release(c) \/ ConnClose(c)
Next == Api \/ Internal \/ KProbeStart \/ KProbePing
Spec == Init /\ [][Next]_vars
Fairness == WF_vars(Internal) /\ WF_vars(KProbePing)
LiveSpec == Spec /\ Fairness

--------------------------------------------------------------------------------
\* ---- properties
\* the resources alive, by owner
ConnRes(c) == {<<c, r>> : r \in {x \in {"csock", "reader"} : conn[c][x]}}
SrvConnRes(c) == (IF conn[c].ssock THEN {<<c, "ssock">>} ELSE {}) \cup (IF conn[c].serve # "none" THEN {<<c, "serve">>} ELSE {})
                 \cup (IF conn[c].hrun > 0 THEN {<<c, "handler">>} ELSE {}) \cup (IF conn[c].strm > 0 THEN {<<c, "streamhandler">>} ELSE {})
SrvRes == (IF accept THEN {<<"server", "accept">>} ELSE {}) \cup UNION {SrvConnRes(c) : c \in Conns}
TrRes == (IF tr.run THEN {<<"transport", "run">>} ELSE {}) \cup UNION {ConnRes(p) : p \in PConns}
KlRes == (IF kl.run THEN {<<"client", "run">>} ELSE {}) \cup (IF kl.fb > 0 THEN {<<"client", "fallback">>} ELSE {})
         \cup (IF kl.waiters > 0 THEN {<<"client", "parked">>} ELSE {}) \cup (IF kl.probe # "idle" THEN {<<"client", "probe">>} ELSE {})

HandlersReleased == \A c \in Conns : conn[c].hrun = 0
\* a closed Conn holds nothing once its reader has noticed
ConnReleased == \A c \in DConns : conn[c].ncl > 0 /\ Quiet => ConnRes(c) = {}
\* a closed Transport holds nothing
TransportReleased == tr.ncl > 0 /\ Quiet => TrRes = {}
\* a closed Client holds nothing (its Transport included)
ClientReleased == kl.ncl > 0 /\ Quiet => KlRes = {} /\ TrRes = {}
\* a closed Server whose handlers have returned holds nothing - its peers are gone because Listen's cleanup cut them off
ServerReleased == srv = "closed" /\ Quiet /\ HandlersReleased => SrvRes = {} /\ listenRet
\* peers gone: a server that is still listening holds nothing for a connection whose client end is closed
PeerGoneReleased == \A c \in Conns : conn[c].st = "open" /\ ~conn[c].csock /\ Quiet /\ conn[c].hrun = 0 => SrvConnRes(c) = {}
\* return values
CloseReturns == \A r \in rets : r.val = (IF r.obj \in DConns /\ r.n > 1 THEN "ErrShutdown" ELSE "nil")
NoPanic == ~panicked
ListenReturns == srv = "closed" ~> listenRet

TypeOK == /\ srv \in {"off", "listening", "closed"} /\ accept \in BOOLEAN /\ listenRet \in BOOLEAN
          /\ \A c \in Conns : conn[c].hrun \in 0..1 /\ conn[c].strm \in 0..1 /\ conn[c].ncl \in 0..MaxRepeat
          /\ tr.ncl \in 0..MaxRepeat /\ kl.ncl \in 0..MaxRepeat /\ kl.fb \in 0..2 /\ kl.waiters \in 0..2

\* the projection the harness compares after each user-level action (the real objects, once settled): what a goroutine
\* profile and counting sockets can see
Count(S) == Cardinality(S)
Proj == [accept |-> IF accept THEN 1 ELSE 0, listenRet |-> listenRet,
         dcs |-> [c \in DConns |-> conn[c].csock], dss |-> [c \in DConns |-> conn[c].ssock],
         pcs |-> Count({p \in PConns : conn[p].csock}), pss |-> Count({p \in PConns : conn[p].ssock}),
         readers |-> Count({c \in Conns : conn[c].reader}), serves |-> Count({c \in Conns : conn[c].serve # "none"}),
         handlers |-> Count({c \in Conns : conn[c].hrun > 0}), streamhandlers |-> Count({c \in Conns : conn[c].strm > 0}),
         trun |-> IF tr.run THEN 1 ELSE 0, krun |-> IF kl.run THEN 1 ELSE 0, fb |-> kl.fb, parked |-> kl.waiters,
         probe |-> IF kl.probe = "idle" THEN 0 ELSE 1, hold |-> {c \in Conns : conn[c].hrun > 0}, rets |-> rets, settled |-> Settled]
================================================================================
