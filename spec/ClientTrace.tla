------------------------------ MODULE ClientTrace ------------------------------
(******************************************************************************)
(* Validates traces of the real rpc.Client (scripted RoundTripper) against      *)
(* Client.tla: every routing decision, waiter registration / wake-up / timeout, *)
(* detector pass, probe completion, estimate update, Fallback and Close event   *)
(* is one action of the specification; the address each call actually reached   *)
(* (recorded by the RoundTripper) and what each call returned are checked too.  *)
(******************************************************************************)
EXTENDS Client, Json

VARIABLES l, bad, pendUpd, lastProbeMs, updDone

Trace == ndJsonDeserialize("trace.ndjson")
AddrSeq == <<"a", "b", "c", "d">>
AddrN(i) == IF i = 0 THEN NoAddr ELSE AddrSeq[i]
TickMs == 30
Scale == 1      \* estimates are logged already scaled

tvars == <<vars, l, bad, pendUpd, lastProbeMs, updDone>>
E == Trace[l]
IsEv(e) == l <= Len(Trace) /\ Trace[l].ev = e
Adv == l' = l + 1
NoFlag == UNCHANGED bad
Closing == \E o \in bad : o[2] = "closing"     \* the harness is winding the run down (marker set at obs.closing)
Keep == UNCHANGED <<pendUpd, lastProbeMs, updDone>>
SetOf(s) == {s[i] : i \in 1..Len(s)}
InCallers(k) == k \in Callers

\* parse "a,b" into a set of addresses (the harness only uses single-letter addresses)
ParseSet(s) == {AddrSeq[i] : i \in {j \in 1..Len(AddrSeq) : \E p \in 1..Len(s) : SubSeq(s, p, p) = AddrSeq[j]}}

TrInit ==
    /\ Init
    /\ l = 1 /\ bad = {} /\ pendUpd = {} /\ lastProbeMs = -1000 /\ updDone = TRUE

Untouched == UNCHANGED <<nupd, nflip, ncall, nfb, ndir, dflip>>

TrReset ==
    /\ IsEv("reset")
    /\ targets' = {} /\ gen' = 0 /\ talive' = [a \in Addrs |-> FALSE] /\ lat' = [a \in Addrs |-> MaxLat]
    /\ list' = <<>> /\ lastSet' = {} /\ pos' = 0 /\ probeDue' = TRUE /\ waiters' = {}
    /\ cst' = [k \in Callers |-> "idle"] /\ croute' = [k \in Callers |-> NoAddr] /\ cerr' = [k \in Callers |-> "none"]
    /\ cvia' = [k \in Callers |-> "none"] /\ closed' = FALSE /\ fallback' = 0 /\ probes' = {}
    /\ health' = [a \in Addrs |-> FALSE] /\ director' = NoAddr /\ rrHist' = <<>> /\ probedSinceTick' = FALSE
    /\ Untouched /\ Adv /\ pendUpd' = {} /\ lastProbeMs' = -1000 /\ updDone' = TRUE
    /\ bad' = {o \in bad : o[2] # "closing"}      \* (the wind-down marker of the previous run goes; flags stay)

TrApiUpdate == IsEv("api.update") /\ pendUpd' = ParseSet(E.k) /\ updDone' = FALSE /\ UNCHANGED <<vars, lastProbeMs>> /\ Adv /\ NoFlag
\* Update has returned: the new target set must be in force (whatever duplicates / empty strings the argument list had)
TrApiUpdateRet ==
    /\ IsEv("api.update.ret")
    /\ bad' = bad \cup (IF ~updDone \/ targets # pendUpd THEN {<<l, "updateignored">>} ELSE {})
    /\ UNCHANGED <<vars, pendUpd, lastProbeMs, updDone>> /\ Adv

TrUpdate ==
    /\ IsEv("k.update")
    /\ targets' = pendUpd /\ gen' = gen + 1
    /\ talive' = [a \in Addrs |-> FALSE] /\ lat' = [a \in Addrs |-> MaxLat]
    /\ list' = <<>> /\ lastSet' = {} /\ rrHist' = <<>>
    /\ bad' = bad \cup (IF Cardinality(pendUpd) # E.a THEN {<<l, "updatesize">>} ELSE {})   \* duplicates / empty strings ignored
    /\ UNCHANGED <<pos, probeDue, waiters, cst, croute, cerr, cvia, closed, fallback, probes, health, director, probedSinceTick>>
    /\ Untouched /\ Adv /\ UNCHANGED <<pendUpd, lastProbeMs>> /\ updDone' = TRUE

TrFlip ==
    /\ IsEv("env.flip")
    /\ health' = [health EXCEPT ![AddrN(E.a)] = (E.b = 1)]
    /\ UNCHANGED <<targets, gen, talive, lat, list, lastSet, pos, probeDue, waiters, cst, croute, cerr, cvia, closed, fallback, probes,
                   director, rrHist, probedSinceTick>>
    /\ Untouched /\ Adv /\ NoFlag /\ Keep

\* detector pass: the set of waiters it released is logged
\* E.m: the probes the pass started, as a bit mask over the addresses (bit i-1: AddrSeq[i])
RECURSIVE MaskOf(_, _)
MaskOf(S, i) == IF i > Len(AddrSeq) THEN 0 ELSE (IF AddrSeq[i] \in S THEN 2 ^ (i - 1) ELSE 0) + MaskOf(S, i + 1)
TrDetect ==
    /\ IsEv("k.detect")
    /\ \E d \in BOOLEAN : Detect(d)
    /\ {k \in Callers : cst[k] = "waiting" /\ cst'[k] = "woken"} = SetOf(E.calls)
    \* callers waiting while a target is live and no fallback is in force are released by the pass
    /\ bad' = bad \cup (IF fallback = 0 /\ list # <<>> /\ waiters' # {} THEN {<<l, "notreleased">>} ELSE {})
                  \* every pass probes every target that is marked unreachable (and no other)
                  \* (not judged once the Client is closed: the recording of the run ends there, a pass still under way is cut off)
                  \* (nor while the harness winds the run down: a call completing beside an unsequenced pass marks its target
                  \*  a moment before its k.ewma.out event is recorded)
                  \cup (IF ~closed /\ ~Closing /\ E.m # MaskOf({x \in targets : ~talive[x]}, 1) THEN {<<l, "probeset">>} ELSE {})
    /\ Adv /\ Keep

\* probe completion: E.a address, E.b generation of the probed target object, E.s alive, E.seq list length afterwards
TrCheck ==
    /\ IsEv("k.check")
    /\ LET a == AddrN(E.a) IN
       /\ \E d1, d2 \in BOOLEAN : ProbeEffect(a, E.b, d1, d2)
       /\ Len(list') = E.seq
       /\ {k \in Callers : cst[k] = "waiting" /\ cst'[k] = "woken"} = SetOf(E.calls)
    /\ bad' = bad \cup (IF fallback = 0 /\ list' # <<>> /\ waiters' # {} THEN {<<l, "notreleased">>} ELSE {})
    /\ Adv /\ Keep

\* ---- routing
TrRouteClosed ==
    /\ (IsEv("k.route.closed") \/ IsEv("k.wait.closed")) /\ InCallers(E.c)
    /\ cst[E.c] = "idle" /\ closed
    /\ cst' = [cst EXCEPT ![E.c] = "done"] /\ cerr' = [cerr EXCEPT ![E.c] = "shutdown"]
    /\ UNCHANGED <<targets, gen, talive, lat, list, lastSet, pos, probeDue, waiters, croute, cvia, closed, fallback, probes, health,
                   director, rrHist, probedSinceTick>>
    /\ Untouched /\ Adv /\ NoFlag /\ Keep

\* schedule(): E.a chosen address, E.b kind (0 single, 1/5 round robin, 2 random, 3 probe, 4 least time, 6 none), E.seq cursor, E.s time (ms)
TrSched ==
    /\ IsEv("k.sched") /\ InCallers(E.c) /\ E.b # 6
    /\ cst[E.c] \in {"idle", "woken"}
    /\ (cst[E.c] = "idle" => ~closed /\ fallback = 0 /\ list # <<>>)
    /\ LET k == E.c
           a == AddrN(E.a)
           n == Len(list) IN
       /\ n >= 1
       \* the order of the live list (map iteration order at the last rebuild) is not logged: the cursor-driven picks
       \* select the orders that explain the trace; if none does, the trace is rejected
       /\ (E.b \in {1, 3, 5} /\ E.seq = pos => list[pos + 1] = a)
       /\ (E.b = 0 => list[1] = a)
       /\ Routed(k, a, IF E.b = 0 THEN "addr" ELSE "target")
       /\ pos' = IF E.b \in {1, 3, 5} THEN (E.seq + 1) % n ELSE pos
       /\ probeDue' = IF E.b = 3 THEN FALSE ELSE probeDue
       /\ probedSinceTick' = IF E.b = 3 THEN TRUE ELSE probedSinceTick
       /\ rrHist' = IF E.b \in {1, 5} THEN Append(rrHist, a) ELSE rrHist
       /\ lastProbeMs' = IF E.b = 3 THEN E.s ELSE lastProbeMs
       /\ bad' = bad
            \cup (IF a \notin Range(list) THEN {<<l, "notinlist">>} ELSE {})
            \cup (IF (E.b = 0) # (n = 1) THEN {<<l, "singlepath">>} ELSE {})
            \cup (IF E.b \in {1, 3, 5} /\ E.seq # pos THEN {<<l, "cursor">>} ELSE {})
            \cup (IF E.b = 4 /\ \E b \in Range(list) : lat[b] < lat[a] THEN {<<l, "notminimal">>} ELSE {})
            \cup (IF E.b = 3 /\ E.s - lastProbeMs < TickMs - 1 THEN {<<l, "probetoooften">>} ELSE {})
            \cup (IF Policy = "rr" /\ E.b \notin {0, 1, 5} THEN {<<l, "policy">>} ELSE {})
            \cup (IF Policy = "random" /\ E.b \notin {0, 2} THEN {<<l, "policy">>} ELSE {})
            \cup (IF Policy = "lt" /\ E.b \notin {0, 3, 4} THEN {<<l, "policy">>} ELSE {})
    /\ UNCHANGED <<targets, gen, talive, lat, list, lastSet, waiters, cerr, closed, fallback, probes, health, director>>
    /\ Untouched /\ Adv /\ pendUpd' = pendUpd /\ updDone' = updDone

TrSchedNone ==      \* woken, but the list is empty again: ErrDial (reading R5)
    /\ IsEv("k.sched") /\ InCallers(E.c) /\ E.b = 6
    /\ cst[E.c] = "woken" /\ list = <<>>
    /\ cst' = [cst EXCEPT ![E.c] = "done"] /\ cerr' = [cerr EXCEPT ![E.c] = "dial"]
    /\ UNCHANGED <<targets, gen, talive, lat, list, lastSet, pos, probeDue, waiters, croute, cvia, closed, fallback, probes, health,
                   director, rrHist, probedSinceTick>>
    /\ Untouched /\ Adv /\ NoFlag /\ Keep

TrWait ==
    /\ IsEv("k.wait") /\ InCallers(E.c)
    /\ \E d \in BOOLEAN : RouteWait(E.c, d)
    /\ Adv /\ NoFlag /\ Keep

TrTimeout ==
    /\ IsEv("k.timeout") /\ InCallers(E.c)
    /\ \E d \in BOOLEAN : Timeout(E.c, d) /\ Cardinality(waiters') = E.b
    /\ Adv /\ NoFlag /\ Keep

TrClose ==
    /\ IsEv("k.close")
    /\ \E d \in BOOLEAN : Close(d)
    /\ {k \in Callers : cst[k] = "waiting" /\ cst'[k] = "done"} = SetOf(E.calls)
    /\ bad' = bad \cup (IF waiters' # {} THEN {<<l, "notreleased">>} ELSE {})
    /\ Adv /\ Keep

TrDirector ==      \* the Director hook now answers E.a (0: empty)
    /\ IsEv("api.director")
    /\ director' = AddrN(E.a)
    /\ UNCHANGED <<targets, gen, talive, lat, list, lastSet, pos, probeDue, waiters, cst, croute, cerr, cvia, closed, fallback, probes,
                   health, rrHist, probedSinceTick>>
    /\ Untouched /\ Adv /\ NoFlag /\ Keep

TrRouteDirector ==
    /\ IsEv("k.route.director") /\ InCallers(E.c)
    /\ cst[E.c] = "idle" /\ ~closed /\ fallback = 0
    /\ Routed(E.c, AddrN(E.a), "addr")
    /\ bad' = bad \cup (IF AddrN(E.a) # director THEN {<<l, "notdirector">>} ELSE {})
    /\ UNCHANGED <<targets, gen, talive, lat, list, lastSet, pos, probeDue, waiters, cerr, closed, fallback, probes, health,
                   director, rrHist, probedSinceTick>>
    /\ Untouched /\ Adv /\ Keep

TrFb ==
    /\ IsEv("k.fb")
    /\ fallback' = IF E.a = 1 THEN fallback + 1 ELSE fallback - 1
    /\ UNCHANGED <<targets, gen, talive, lat, list, lastSet, pos, probeDue, waiters, cst, croute, cerr, cvia, closed, probes, health,
                   director, rrHist, probedSinceTick>>
    /\ Untouched /\ Adv /\ NoFlag /\ Keep

\* estimate update of a target object: E.a address, E.b generation, E.seq new estimate (scaled), E.s alive, E.sent = 1 iff the
\* value is the documented moving average of the logged inputs (checked arithmetically by the harness)
TrEwma ==
    /\ IsEv("k.ewma.out")
    /\ LET a == AddrN(E.a)
           cur == E.b = gen /\ a \in targets
           v == IF E.seq > MaxLat THEN MaxLat ELSE E.seq IN
       /\ lat' = IF cur THEN [lat EXCEPT ![a] = v] ELSE lat
       /\ talive' = IF cur THEN [talive EXCEPT ![a] = (E.s = 1)] ELSE talive
       /\ bad' = bad \cup (IF E.sent # 1 THEN {<<l, "ewma">>} ELSE {})
                     \cup (IF E.s = 0 /\ E.seq < MaxLat THEN {<<l, "deadnotmax">>} ELSE {})
    /\ UNCHANGED <<targets, gen, list, lastSet, pos, probeDue, waiters, cst, croute, cerr, cvia, closed, fallback, probes, health,
                   director, rrHist, probedSinceTick>>
    /\ Untouched /\ Adv /\ Keep

\* ---- API level
TrApiCall == IsEv("api.call") /\ UNCHANGED <<vars, pendUpd, lastProbeMs, updDone>> /\ Adv /\ NoFlag
\* the RoundTripper saw the call: E.a = address it was given (0: empty string)
TrRtCall ==
    /\ IsEv("rt.call")
    /\ LET a == AddrN(E.a) k == E.c IN
       \* the address the RoundTripper is given is the one the routing decision produced. (Whether that address was a target is
       \* judged at the decision - notinlist at k.sched with ListFromTargets, notdirector - not here: an Update may come between
       \* the decision and the RoundTripper seeing the call, and the call is then rightly on its way to the old target.)
       bad' = bad \cup (IF k \in Callers /\ cst[k] = "routed" /\ croute[k] # a THEN {<<l, "wrongroute">>} ELSE {})
    /\ UNCHANGED <<vars, pendUpd, lastProbeMs, updDone>> /\ Adv
\* the harness ended the context of caller E.c, whose call is with the RoundTripper
TrCancel ==
    /\ IsEv("env.cancel") /\ InCallers(E.c) /\ cst[E.c] = "routed"
    /\ cerr' = [cerr EXCEPT ![E.c] = "ctx"]
    /\ UNCHANGED <<targets, gen, talive, lat, list, lastSet, pos, probeDue, waiters, cst, croute, cvia, closed, fallback, probes, health,
                   director, rrHist, probedSinceTick>>
    /\ Untouched /\ Adv /\ Keep /\ NoFlag
\* ... and the call had not returned one second later
TrCancelStuck ==
    /\ IsEv("obs.cancelstuck")
    /\ bad' = bad \cup {<<l, "cancelignored">>}
    /\ UNCHANGED <<vars, pendUpd, lastProbeMs, updDone>> /\ Adv
\* the call returned: E.a = 0 ok, 1 ErrShutdown, 2 ErrTimeout, 3 ErrDial, 5 the context's error, 4 other
TrApiRet ==
    /\ IsEv("api.ret") /\ InCallers(E.c)
    /\ LET k == E.c
           isCallForm == E.k \in {"call", "ctx"}
           want == IF cst[k] = "done" THEN cerr[k]
                   ELSE IF cst[k] = "routed" THEN (IF cerr[k] = "ctx" THEN "ctx"
                                                   ELSE IF croute[k] \in Addrs /\ health[croute[k]] THEN "none" ELSE "dial")
                   ELSE "?"
           got == CASE E.a = 0 -> "none" [] E.a = 1 -> "shutdown" [] E.a = 2 -> "timeout" [] E.a = 3 -> "dial" [] E.a = 5 -> "ctx" [] OTHER -> "other"
       IN
       /\ bad' = bad \cup (IF want = "?" THEN {<<l, "returnedunrouted">>}
                           ELSE IF isCallForm /\ got # want THEN {<<l, "errkind">>}
                           ELSE IF ~isCallForm /\ (want = "none") # (got = "none") THEN {<<l, "errkind">>} ELSE {})
                     \* Call, CallWithContext, Ping and NewStream report the outcome to the target they were routed to: after a
                     \* failed dial that target is marked unreachable (estimate at the maximum, probed again by the detector)
                     \cup (IF E.k \in {"call", "ctx", "ping", "stream"} /\ got = "dial" /\ cst[k] = "routed" /\ cvia[k] = "target"
                              /\ croute[k] \in targets /\ talive[croute[k]]
                           THEN {<<l, "notmarkeddead">>} ELSE {})
       /\ cst' = [cst EXCEPT ![k] = "idle"] /\ cerr' = [cerr EXCEPT ![k] = "none"]
       /\ croute' = [croute EXCEPT ![k] = NoAddr] /\ cvia' = [cvia EXCEPT ![k] = "none"]
    /\ UNCHANGED <<targets, gen, talive, lat, list, lastSet, pos, probeDue, waiters, closed, fallback, probes, health, director,
                   rrHist, probedSinceTick>>
    /\ Untouched /\ Adv /\ Keep

\* the harness has opened all its gates and is about to close the Client: from here on calls, probes and detector passes run
\* unsequenced (marker in `bad`, not a flag of any property)
TrObsClosing == IsEv("obs.closing") /\ bad' = bad \cup {<<l, "closing">>} /\ UNCHANGED <<vars, pendUpd, lastProbeMs, updDone>> /\ Adv
TrObsEnd ==     \* E.a callers still blocked 1.5 s after Close
    /\ IsEv("obs.end")
    /\ bad' = bad \cup (IF E.a # 0 THEN {<<l, "stranded">>} ELSE {})
    /\ UNCHANGED <<vars, pendUpd, lastProbeMs, updDone>> /\ Adv

TrNext ==
    \/ TrReset \/ TrApiUpdate \/ TrApiUpdateRet \/ TrUpdate \/ TrFlip \/ TrDetect \/ TrCheck \/ TrRouteClosed \/ TrSched \/ TrSchedNone
    \/ TrDirector \/ TrRouteDirector \/ TrWait \/ TrTimeout \/ TrClose \/ TrFb \/ TrEwma \/ TrApiCall \/ TrRtCall \/ TrCancel \/ TrCancelStuck \/ TrApiRet \/ TrObsClosing \/ TrObsEnd

TrSpec == TrInit /\ [][TrNext]_tvars

ASSUME TLCSet(1, 0)
TrHigh == TLCSet(1, IF TLCGet(1) > l THEN TLCGet(1) ELSE l)
TrAccepted == IF TLCGet(1) = Len(Trace) + 1 THEN TRUE
              ELSE PrintT(<<"TRACE-REJECTED-AT", TLCGet(1)>>) /\ FALSE

BadWhat(w) == \A o \in bad : o[2] # w
RouteOK == BadWhat("updateignored") /\ BadWhat("notdirector") /\ BadWhat("notinlist") /\ BadWhat("wrongroute") /\ BadWhat("nottarget") /\ BadWhat("updatesize")     \* C16
PolicyOK == BadWhat("singlepath") /\ BadWhat("cursor") /\ BadWhat("notminimal") /\ BadWhat("probetoooften")
            /\ BadWhat("policy") /\ BadWhat("ewma") /\ BadWhat("deadnotmax") /\ BadWhat("notmarkeddead")                                  \* C17
CancelOK == BadWhat("cancelignored")                                                                                              \* C19
WaitersOK == BadWhat("notreleased") /\ BadWhat("stranded") /\ BadWhat("errkind") /\ BadWhat("returnedunrouted") /\ BadWhat("probeset")                       \* C18
================================================================================
