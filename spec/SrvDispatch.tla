------------------------------ MODULE SrvDispatch ------------------------------
(******************************************************************************)
(* Two small specifications behind "nothing a peer does can crash the process": *)
(*                                                                            *)
(* 1. Dispatch totality.  ServeRequest as a *total* function from what a frame    *)
(*    can carry - any of the 256 upgrade bytes, a method name that is a unary     *)
(*    method / a stream method / unknown / empty, arguments that decode / do not  *)
(*    decode / are empty, a sequence number that is / is not an open stream - to  *)
(*    an outcome class: no response ("none"), an error response ("error") or a    *)
(*    response without error ("ok").  TLC enumerates the cases (Cases); the        *)
(*    harness sends each as a frame to a real server in a worker process and       *)
(*    compares the response class; the process must survive and serve a            *)
(*    well-formed probe afterwards.                                                *)
(*                                                                            *)
(* 2. Teardown protocol of a server connection (ServeCodec and the poll branch):  *)
(*    reader, decode queue, handlers counted by a WaitGroup, codec close, stream   *)
(*    sweep - with Go's WaitGroup rule as an invariant: an Add that starts from     *)
(*    zero must happen before Wait.                                                *)
(******************************************************************************)
EXTENDS Integers, Sequences, FiniteSets, TLC, Json

--------------------------------------------------------------------------------
\* ---- 1. dispatch
Bit(b, k) == (b \div k) % 2
NoReq(b) == Bit(b, 128)
NoResp(b) == Bit(b, 64)
HB(b) == Bit(b, 32)
Strm(b) == (b \div 8) % 4
\* the five combinations of the protocol (the low three bits are ignored by the decoder)
ValidFlags(b) ==
    \/ (HB(b) = 1 /\ NoReq(b) = 1 /\ NoResp(b) = 1 /\ Strm(b) = 0)                 \* heartbeat
    \/ (HB(b) = 0 /\ Strm(b) \in {1, 3} /\ NoReq(b) = 1 /\ NoResp(b) = 1)          \* open / close stream
    \/ (HB(b) = 0 /\ Strm(b) = 2 /\ NoReq(b) = 0 /\ NoResp(b) = 1)                 \* stream message
    \/ (HB(b) = 0 /\ Strm(b) = 0 /\ NoReq(b) = 0 /\ NoResp(b) = 0)                 \* unary call

Methods == {"unary", "stream", "unknown", "empty"}
ArgKinds == {"ok", "garbage", "empty"}

Outcome(b, m, a, known) ==
    IF ~ValidFlags(b) THEN "error"
    ELSE IF HB(b) = 1 THEN "ok"
    ELSE IF Strm(b) = 1 THEN (IF m = "stream" THEN "ok" ELSE IF m = "unary" THEN "ok" ELSE "error")
         \* (an open-stream request naming a unary method is acknowledged; the call of the method then fails inside funcs)
    ELSE IF Strm(b) = 3 THEN "ok"
    ELSE IF Strm(b) = 2 THEN "none"
    ELSE IF m = "unary" /\ a = "ok" THEN "ok" ELSE "error"

Cases == [flag : 0..255, method : Methods, args : ArgKinds, known : BOOLEAN]

VARIABLE case
DInit == case \in Cases
DNext == UNCHANGED case
DSpec == DInit /\ [][DNext]_case
Emit == PrintT(<<"CASE", ToJson([c |-> case, outcome |-> Outcome(case.flag, case.method, case.args, case.known)])>>)
\* sanity: exactly five flag bytes (modulo the ignored low bits) are valid
ValidCount == Cardinality({b \in 0..255 : ValidFlags(b)}) = 5 * 8
================================================================================
