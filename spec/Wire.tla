---------------------------------- MODULE Wire ----------------------------------
(******************************************************************************)
(* The documented wire formats of hslam/rpc's message headers, as pure           *)
(* operators, and a generator of boundary vectors:                               *)
(*   pb / default : protobuf wire format, fields 1 seq (varint), 2 upgrade /     *)
(*                  error (length-delimited), 3 method / reply, 4 args; zero      *)
(*                  values are omitted;                                           *)
(*   code         : varint seq, then varint-length-prefixed upgrade, method,      *)
(*                  args (resp.: error, reply); an empty field is the byte 0;     *)
(*   json         : a JSON document with the keys i,u,m,p (requests) and i,e,r    *)
(*                  (responses); byte fields in base64 (abstract here);           *)
(*   upgrade byte : NoRequest*128 + NoResponse*64 + Heartbeat*32 + Stream*8.      *)
(* Numbers that do not fit TLC's 32-bit integers (64-bit sequence numbers) are    *)
(* little-endian sequences of base-128 digits: exactly the groups of a varint.    *)
(* Large fields are symbolic: [len |-> n, seed |-> k] stands for n bytes the      *)
(* harness regenerates from k, so TLC only manipulates tags and length prefixes.  *)
(* Expected encodings are lists of chunks: <<"b", bytes>> or <<"f", len, seed>>.  *)
(******************************************************************************)
EXTENDS Integers, Sequences, FiniteSets, TLC, Json

CONSTANTS Tier      \* "quick" / "thorough": size of the generated vector space

\* ---- varints
RECURSIVE Digits(_)
Digits(n) == IF n < 128 THEN <<n>> ELSE <<n % 128>> \o Digits(n \div 128)
VarintOfDigits(d) == [i \in 1..Len(d) |-> IF i < Len(d) THEN d[i] + 128 ELSE d[i]]
Varint(n) == VarintOfDigits(Digits(n))
IsZeroDigits(d) == d = <<0>>

\* ---- chunks
B(bytes) == <<"b", bytes>>
Fill(f) == <<"f", f.len, f.seed>>
FieldChunks(f) == IF f.len = 0 THEN <<>> ELSE <<Fill(f)>>

\* ---- protobuf wire format
Tag(fieldno, wiretype) == fieldno * 8 + wiretype
PBVarintField(fieldno, digits) == IF IsZeroDigits(digits) THEN <<>> ELSE <<B(<<Tag(fieldno, 0)>> \o VarintOfDigits(digits))>>
PBBytesField(fieldno, f) == IF f.len = 0 THEN <<>> ELSE <<B(<<Tag(fieldno, 2)>> \o Varint(f.len)), Fill(f)>>
PBRequest(h) == PBVarintField(1, h.seq) \o PBBytesField(2, h.upgrade) \o PBBytesField(3, h.method) \o PBBytesField(4, h.args)
PBResponse(h) == PBVarintField(1, h.seq) \o PBBytesField(2, h.error) \o PBBytesField(3, h.reply)

\* ---- "code" format
LP(f) == <<B(Varint(f.len))>> \o FieldChunks(f)
CodeRequest(h) == <<B(VarintOfDigits(h.seq))>> \o LP(h.upgrade) \o LP(h.method) \o LP(h.args)
CodeResponse(h) == <<B(VarintOfDigits(h.seq))>> \o LP(h.error) \o LP(h.reply)

\* ---- upgrade byte
UpgradeByte(u) == u.noreq * 128 + u.noresp * 64 + u.hb * 32 + u.stream * 8
Upgrades == [noreq : {0, 1}, noresp : {0, 1}, hb : {0, 1}, stream : {0, 1, 2, 3}]

Expected(v) ==
    CASE v.enc \in {"pb", "default"} /\ v.dir = "req"  -> PBRequest(v.h)
      [] v.enc \in {"pb", "default"} /\ v.dir = "resp" -> PBResponse(v.h)
      [] v.enc = "code" /\ v.dir = "req"  -> CodeRequest(v.h)
      [] v.enc = "code" /\ v.dir = "resp" -> CodeResponse(v.h)
      [] OTHER -> <<>>      \* json: the document is compared key by key, not byte by byte

--------------------------------------------------------------------------------
\* The vector space.
SeqBoundaries ==       \* 0, 1, 127, 128, 2^14-1, 2^14, 2^21-1, 2^21, 2^28, 2^35, 2^56, 2^63, 2^64-1
    { <<0>>, <<1>>, <<127>>, <<0, 1>>, <<127, 127>>, <<0, 0, 1>>, <<127, 127, 127>>, <<0, 0, 0, 1>>,
      <<0, 0, 0, 0, 1>>, <<0, 0, 0, 0, 0, 1>>, <<0, 0, 0, 0, 0, 0, 0, 0, 1>>, <<0, 0, 0, 0, 0, 0, 0, 0, 0, 1>>,
      <<127, 127, 127, 127, 127, 127, 127, 127, 127, 1>> }
SeqQuick == { <<0>>, <<1>>, <<127>>, <<0, 1>>, <<127, 127>>, <<0, 0, 1>>, <<0, 0, 0, 0, 0, 0, 0, 0, 0, 1>>, <<127, 127, 127, 127, 127, 127, 127, 127, 127, 1>> }
LenBoundaries == {0, 1, 127, 128, 129, 16383, 16384, 2097151, 2097152}
LenQuick == {0, 1, 127, 128, 16383, 16384}
LenSmall == {0, 1, 127, 128, 300}

Seqs == IF Tier = "quick" THEN SeqQuick ELSE SeqBoundaries
BodyLens == IF Tier = "quick" THEN LenQuick ELSE LenBoundaries
TextLens == IF Tier = "quick" THEN {0, 1, 127, 128, 300} ELSE {0, 1, 127, 128, 129, 16383, 16384, 70000}
F(n, k) == [len |-> n, seed |-> k]
NoF == F(0, 0)
Encs == {"default", "pb", "code", "json"}
Bufs == IF Tier = "quick" THEN {"nil", "exact", "dirtylarge"} ELSE {"nil", "small", "exact", "large", "dirtysmall", "dirtyexact", "dirtylarge"}

\* one field varies over its boundaries while the others take a typical value (plus the all-empty and all-large corners)
ReqHeaders ==
         {[seq |-> s, upgrade |-> NoF, method |-> F(9, 3), args |-> F(40, 4)] : s \in Seqs}
    \cup {[seq |-> <<5>>, upgrade |-> F(u, 2), method |-> F(9, 3), args |-> F(40, 4)] : u \in {0, 1, 2}}
    \cup {[seq |-> <<5>>, upgrade |-> F(1, 2), method |-> F(m, 3), args |-> F(40, 4)] : m \in TextLens}
    \cup {[seq |-> <<5>>, upgrade |-> NoF, method |-> F(9, 3), args |-> F(a, 4)] : a \in BodyLens}
    \cup {[seq |-> <<0>>, upgrade |-> NoF, method |-> NoF, args |-> NoF],
          [seq |-> <<127, 127, 127, 127, 127, 127, 127, 127, 127, 1>>, upgrade |-> F(1, 2), method |-> F(128, 3), args |-> F(16384, 4)]}
RespHeaders ==
         {[seq |-> s, error |-> NoF, reply |-> F(40, 5)] : s \in Seqs}
    \cup {[seq |-> <<5>>, error |-> F(e, 6), reply |-> NoF] : e \in TextLens}
    \cup {[seq |-> <<5>>, error |-> NoF, reply |-> F(r, 5)] : r \in BodyLens}
    \cup {[seq |-> <<5>>, error |-> F(e, 6), reply |-> F(r, 5)] : e \in {1, 128}, r \in {1, 128}}
    \cup {[seq |-> <<0>>, error |-> NoF, reply |-> NoF]}

Vectors ==
         {[kind |-> "header", enc |-> e, dir |-> "req", h |-> h, buf |-> b] : e \in Encs, h \in ReqHeaders, b \in Bufs}
    \cup {[kind |-> "header", enc |-> e, dir |-> "resp", h |-> h, buf |-> b] : e \in Encs, h \in RespHeaders, b \in Bufs}
UpgradeVectors == {[kind |-> "upgrade", u |-> u, byte |-> UpgradeByte(u)] : u \in Upgrades}

VARIABLE vec
Init == vec \in Vectors \cup UpgradeVectors
Next == UNCHANGED vec
Spec == Init /\ [][Next]_vec

\* every generated vector is printed with its expected encoding (one JSON object per line)
Emit == PrintT(<<"VEC", ToJson(IF vec.kind = "header" THEN [v |-> vec, expected |-> Expected(vec)] ELSE [v |-> vec])>>)

\* sanity of the specification itself (checked on every vector)
VarintWellFormed ==
    vec.kind = "header" =>
        LET d == vec.h.seq IN /\ Len(d) >= 1 /\ Len(d) <= 10 /\ \A i \in 1..Len(d) : d[i] \in 0..127
                              /\ (Len(d) > 1 => d[Len(d)] # 0)
UpgradeInjective == \A u1, u2 \in Upgrades : UpgradeByte(u1) = UpgradeByte(u2) => u1 = u2
================================================================================
