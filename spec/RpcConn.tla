-------------------------------- MODULE RpcConn --------------------------------
(******************************************************************************)
(* One client Conn  <->  two wire FIFOs  <->  one server connection of         *)
(* hslam/rpc: unary calls, heartbeats, context calls, faults.  One action per  *)
(* critical section / linearisation point of the Go code (conn.go, server.go); *)
(* queues where the code has queues.  (Streams and the server teardown         *)
(* protocol are specified in RpcStream.tla / SrvTeardown.tla.)                 *)
(*                                                                            *)
(* Calls are abstract: call c carries the argument value c, the handler        *)
(* computes F(c) = c (a tagged copy), an error text is E(c) = c.  So "the      *)
(* reply computed from its own arguments" is res[c].val = c.                   *)
(*                                                                            *)
(* Dev is the set of *deviations* from the intended design that the model may  *)
(* exhibit.  Dev = {} is the intended design, against which every property is  *)
(* model-checked.  A non-empty Dev is used (a) to let TLC emit the dangerous    *)
(* interleaving as a counterexample, which is then replayed against the real   *)
(* code, and (b) by the trace specification RpcConnTrace, where Dev is the     *)
(* full set: the implementation's logged effects select the branch taken and   *)
(* the invariants below judge the states the implementation went through.      *)
(******************************************************************************)
EXTENDS Integers, Sequences, FiniteSets, TLC

CONSTANTS
    Calls,       \* set of call identifiers (positive integers)
    Pings,       \* subset of Calls: heartbeat calls (no handler, no body)
    CtxCalls,    \* subset of Calls \ Pings made with CallWithContext
    FailCalls,   \* subset of Calls \ Pings that the server answers with an error
    NoMethodCalls, \* subset of FailCalls naming a method the server does not have: no handler runs, the lookup fails
    CliPipe,     \* BOOLEAN: Conn.SetPipelining (writeSched + readSched)
    CliDirect,   \* BOOLEAN: Conn.SetDirectIO (reader decodes inline)
    SrvPipe,     \* BOOLEAN: Server.SetPipelining
    SrvDirect,   \* BOOLEAN: Server.SetDirectIO
    MaxWFail,    \* budget: injected request-write failures
    MaxMFail,    \* budget: client-side marshal failures
    MaxDup,      \* budget: duplicated responses injected by the peer/network
    MaxUnk,      \* budget: responses with a sequence number nobody uses
    MaxCut,      \* budget: 1 allows the peer/network to cut the connection
    MaxLoss,     \* how many in-flight frames per direction a cut may destroy
    MaxClose,    \* budget: number of local Conn.Close calls (0..2)
    Dev          \* set of deviation names, see below

Deviations == { "SweepKeepsEntries",        \* final sweep completes but does not remove entries (code before fix D1)
                "WriteFailAlwaysCompletes", \* write-error path completes even if the entry was already taken (D1)
                "SweepBeforeDrain",         \* reader sweeps without draining its decode queue (code before fix D2)
                "ErrorInline",              \* error response completes inline, bypassing the completion queue (D3)
                "EchoWrongSeq",             \* server answers with a stale sequence number
                "DupExec",                  \* server dispatches a request twice
                "PingRunsHandler",          \* heartbeat reaches a handler
                "NoRefuseAfterShutdown",    \* send does not refuse after shutdown/closing
                "SweepSkips",               \* sweep misses an entry
                "UnorderedFinish",          \* completion queue has more than one worker
                "UnorderedExec",            \* pipelined server runs handlers concurrently
                "DispatchKeepsEntry",       \* dispatch does not remove the entry it completes
                "SeqReuse",                 \* sequence number not advanced under the lock
                "LookupFailInline",         \* an unknown method is answered by the decode worker itself, ahead of the handler queue
                "RemoveAtFinish",           \* the entry of a dispatched response stays in the table until its completion runs
                "EofRunsQueued",            \* at the end of the connection the teardown starts the requests still queued, whatever is executing
                "AbandonRecycles" }         \* the Call object of an abandoned CallWithContext is reused while the table still refers to it

ASSUME Dev \subseteq Deviations
ASSUME Pings \subseteq Calls /\ CtxCalls \subseteq Calls \ Pings /\ FailCalls \subseteq Calls \ Pings /\ NoMethodCalls \subseteq FailCalls

\* the choices a (possibly deviating) step may make: FALSE = as designed
DevChoice(d) == IF d \in Dev THEN BOOLEAN ELSE {FALSE}

UnkSeq == 1000      \* a sequence number no call ever gets
NoCall == 0

VARIABLES
    \* ---- client connection (conn.go) ----
    cseq,        \* next sequence number                       (Conn.seq)
    seqof,       \* seqof[c]: sequence number given to c, -1 before registration
    pending,     \* set of calls in the pending table          (Conn.pending)
    closing,     \* Conn.closing
    shutdown,    \* Conn.shutdown
    codecClosed, \* clientCodec.closed
    sockClosed,  \* the client's Messages has been closed
    cst,         \* cst[c]: lifecycle of the request side of call c
    wq,          \* writeSched FIFO (client pipelining)
    rdq,         \* reader -> decode queue of response frames
    fin,         \* completions decided by dispatch, not yet signalled
    rd,          \* reader goroutine: "reading" / "swept"
    ncomp,       \* ncomp[c]: how many times Done was signalled for c
    res,         \* res[c]: the call's current outcome as the caller sees it
    res0,        \* res0[c]: the outcome at the first signal
    ctxst,       \* ctxst[c]: "none" / "waiting" / "done" / "cancelled"   (CallWithContext)
    \* ---- wires ----
    c2s, s2c,    \* frames in flight
    cut,         \* TRUE once the connection is cut (by the network, the peer or a local close)
    \* ---- server connection (server.go) ----
    sdq,         \* reader -> decode queue of request frames
    sxq,         \* decoded requests waiting for a handler (FIFO when SrvPipe)
    sexec,       \* requests whose handler is running
    sdone,       \* requests (and heartbeats) whose response is about to be written
    seof,        \* server reader saw the end of the stream
    \* ---- budgets ----
    nwfail, nmfail, ndup, nunk, ncut, nclose,
    \* ---- history / observer variables (not part of the behaviour) ----
    issued,      \* calls in API issue order
    slog,        \* handler executions, in begin order
    wresp,       \* response frames in the order the server wrote them
    comps        \* calls in completion (first signal) order

cvars == <<cseq, seqof, pending, closing, shutdown, codecClosed, sockClosed, cst, wq, rdq, fin, rd,
           ncomp, res, res0, ctxst>>
wvars == <<c2s, s2c, cut>>
svars == <<sdq, sxq, sexec, sdone, seof>>
bvars == <<nwfail, nmfail, ndup, nunk, ncut, nclose>>
hvars == <<issued, slog, wresp, comps>>
vars  == <<cvars, wvars, svars, bvars, hvars>>

--------------------------------------------------------------------------------
\* Values

Req(s, c)  == [k |-> "req",  seq |-> s, c |-> c, err |-> FALSE]
PingF(s,c) == [k |-> "ping", seq |-> s, c |-> c, err |-> FALSE]
Resp(s, c, e) == [k |-> "resp", seq |-> s, c |-> c, err |-> e]
    \* a response: seq is the echoed sequence number, c the request whose handler
    \* (or whose heartbeat) produced it, err whether it carries the error text E(c).

NoRes == [kind |-> "none", val |-> NoCall]
Ok(v)       == [kind |-> "ok",       val |-> v]     \* reply F(v)
SrvErr(v)   == [kind |-> "srverr",   val |-> v]     \* error text E(v)
Shut        == [kind |-> "shutdown", val |-> NoCall] \* ErrShutdown
WErr        == [kind |-> "werr",     val |-> NoCall] \* the write/marshal error
IOErr       == [kind |-> "ioerr",    val |-> NoCall] \* a read error other than EOF

RemoveAt(s, i) == SubSeq(s, 1, i-1) \o SubSeq(s, i+1, Len(s))
FirstIdx(q, c) == CHOOSE i \in 1..Len(q) : q[i].c = c /\ \A j \in 1..(i-1) : q[j].c # c
Prefixes(s, k) == {SubSeq(s, 1, n) : n \in (IF Len(s) > k THEN Len(s) - k ELSE 0)..Len(s)}

--------------------------------------------------------------------------------
Init ==
    /\ cseq = 0
    /\ seqof = [c \in Calls |-> -1]
    /\ pending = {}
    /\ closing = FALSE /\ shutdown = FALSE /\ codecClosed = FALSE /\ sockClosed = FALSE
    /\ cst = [c \in Calls |-> "new"]
    /\ wq = <<>> /\ rdq = <<>> /\ fin = <<>>
    /\ rd = "reading"
    /\ ncomp = [c \in Calls |-> 0]
    /\ res = [c \in Calls |-> NoRes]
    /\ res0 = [c \in Calls |-> NoRes]
    /\ ctxst = [c \in Calls |-> "none"]
    /\ c2s = <<>> /\ s2c = <<>> /\ cut = FALSE
    /\ sdq = <<>> /\ sxq = <<>> /\ sexec = {} /\ sdone = {} /\ seof = FALSE
    /\ nwfail = 0 /\ nmfail = 0 /\ ndup = 0 /\ nunk = 0 /\ ncut = 0 /\ nclose = 0
    /\ issued = <<>> /\ slog = <<>> /\ wresp = <<>> /\ comps = <<>>

\* Reset: every variable back to its initial value (used by the trace specification
\* between concatenated traces; not part of Next).
Reset ==
    /\ cseq' = 0
    /\ seqof' = [c \in Calls |-> -1]
    /\ pending' = {}
    /\ closing' = FALSE /\ shutdown' = FALSE /\ codecClosed' = FALSE /\ sockClosed' = FALSE
    /\ cst' = [c \in Calls |-> "new"]
    /\ wq' = <<>> /\ rdq' = <<>> /\ fin' = <<>>
    /\ rd' = "reading"
    /\ ncomp' = [c \in Calls |-> 0]
    /\ res' = [c \in Calls |-> NoRes]
    /\ res0' = [c \in Calls |-> NoRes]
    /\ ctxst' = [c \in Calls |-> "none"]
    /\ c2s' = <<>> /\ s2c' = <<>> /\ cut' = FALSE
    /\ sdq' = <<>> /\ sxq' = <<>> /\ sexec' = {} /\ sdone' = {} /\ seof' = FALSE
    /\ nwfail' = 0 /\ nmfail' = 0 /\ ndup' = 0 /\ nunk' = 0 /\ ncut' = 0 /\ nclose' = 0
    /\ issued' = <<>> /\ slog' = <<>> /\ wresp' = <<>> /\ comps' = <<>>

--------------------------------------------------------------------------------
\* Completion: `call.Error = e ; call.done()`  (done() never blocks; the harness
\* gives Done room for every signal, so each done() is one delivered signal).

Complete(c, r) ==
    /\ ncomp' = [ncomp EXCEPT ![c] = @ + 1]
    /\ res'   = [res EXCEPT ![c] = r]
    /\ res0'  = IF ncomp[c] = 0 THEN [res0 EXCEPT ![c] = r] ELSE res0
    /\ comps' = IF ncomp[c] = 0 THEN Append(comps, c) ELSE comps

CompleteSet(S, r) ==
    /\ ncomp' = [c \in Calls |-> IF c \in S THEN ncomp[c] + 1 ELSE ncomp[c]]
    /\ res'   = [c \in Calls |-> IF c \in S THEN r ELSE res[c]]
    /\ res0'  = [c \in Calls |-> IF c \in S /\ ncomp[c] = 0 THEN r ELSE res0[c]]
    /\ comps' = comps   \* sweep order is map order: not recorded (reading R1)

NoCompletion == UNCHANGED <<ncomp, res, res0, comps>>

\* The conn mutex is held by the reader for the whole of its final sweep; every
\* other critical section of the connection is a single action here, so mutual
\* exclusion is implicit.

--------------------------------------------------------------------------------
\* Client: API entry.  Go / Call / RoundTrip / Ping / CallWithContext all reach
\* conn.write(call): with pipelining the call is queued on writeSched.

\* Asynchronous forms (Go, RoundTrip) are issued from the caller's goroutine: their order on the
\* write queue is their issue order.  The blocking forms (Ping, CallWithContext; Call behaves
\* alike) are issued from goroutines of their own, so their place in the queue is not fixed
\* by the order in which they were started: they "float" until the worker picks them.
Async(c) == c \notin Pings /\ c \notin CtxCalls
InWq(c) == \E i \in 1..Len(wq) : wq[i] = c

Start(c) ==
    /\ cst[c] = "new"
    /\ issued' = Append(issued, c)
    /\ ctxst' = [ctxst EXCEPT ![c] = IF c \in CtxCalls THEN "waiting" ELSE "none"]
    /\ IF CliPipe
         THEN /\ wq' = IF Async(c) THEN Append(wq, c) ELSE wq
              /\ cst' = [cst EXCEPT ![c] = "wq"]
         ELSE /\ wq' = wq
              /\ cst' = [cst EXCEPT ![c] = "sending"]
    /\ UNCHANGED <<cseq, seqof, pending, closing, shutdown, codecClosed, sockClosed, rdq, fin, rd,
                   ncomp, res, res0>>
    /\ UNCHANGED <<wvars, svars, bvars, slog, wresp, comps>>

\* The writeSched worker takes the next queued call (pipelining only): one send at a time, in
\* queue order.  Once the reader has shut the connection down it closes the queue: what is
\* still queued, and whatever is scheduled afterwards, runs inline on whichever goroutine gets
\* to it, in no particular order (hslam/scheduler Close/Schedule-after-Close semantics).
WqTake(c) ==
    /\ CliPipe /\ cst[c] = "wq"
    /\ rd = "reading" =>
          /\ \A d \in Calls : cst[d] \notin {"sending", "reg"}   \* single worker: previous send finished
          /\ (InWq(c) => c = Head(wq))
    /\ cst' = [cst EXCEPT ![c] = "sending"]
    /\ wq' = SelectSeq(wq, LAMBDA x : x # c)
    /\ UNCHANGED <<cseq, seqof, pending, closing, shutdown, codecClosed, sockClosed, rdq, fin, rd,
                   ncomp, res, res0, ctxst>>
    /\ UNCHANGED <<wvars, svars, bvars, hvars>>

\* send(): under the mutex: refuse when shut down or closing ...
Refuse(c) ==
    /\ cst[c] = "sending"
    /\ (shutdown \/ closing)
    /\ cst' = [cst EXCEPT ![c] = "refused"]
    /\ Complete(c, Shut)
    /\ UNCHANGED <<cseq, seqof, pending, closing, shutdown, codecClosed, sockClosed, wq, rdq, fin, rd, ctxst>>
    /\ UNCHANGED <<wvars, svars, bvars, issued, slog, wresp>>

\* ... otherwise allocate the sequence number and insert into the table.
Register(c, dNoRefuse, dSeqReuse) ==
    /\ cst[c] = "sending"
    /\ (~(shutdown \/ closing) \/ dNoRefuse)
    /\ seqof' = [seqof EXCEPT ![c] = cseq]
    /\ cseq' = IF dSeqReuse THEN cseq ELSE cseq + 1
    /\ pending' = pending \cup {c}
    /\ cst' = [cst EXCEPT ![c] = "reg"]
    /\ UNCHANGED <<closing, shutdown, codecClosed, sockClosed, wq, rdq, fin, rd, ncomp, res, res0, ctxst>>
    /\ UNCHANGED <<wvars, svars, bvars, hvars>>

\* codec.WriteRequest succeeded: the frame is on the wire (or lost if the wire is cut).
WriteOK(c) ==
    /\ cst[c] = "reg"
    /\ ~sockClosed
    /\ cst' = [cst EXCEPT ![c] = "wrote"]
    /\ c2s' = IF cut THEN c2s
              ELSE Append(c2s, IF c \in Pings THEN PingF(seqof[c], c) ELSE Req(seqof[c], c))
    /\ UNCHANGED <<cseq, seqof, pending, closing, shutdown, codecClosed, sockClosed, wq, rdq, fin, rd,
                   ncomp, res, res0, ctxst>>
    /\ UNCHANGED <<s2c, cut, svars, bvars, hvars>>

\* codec.WriteRequest failed (marshal error, closed codec, transport error):
\* under the mutex the entry is removed; the call is completed with the error
\* if and only if this path removed it (removal is the single hand-off).
WriteFailWith(c, r, dAlways) ==
    /\ cst[c] = "reg"
    /\ cst' = [cst EXCEPT ![c] = "wfail"]
    /\ pending' = pending \ {c}
    /\ IF c \in pending \/ dAlways
         THEN Complete(c, r)
         ELSE NoCompletion
    /\ UNCHANGED <<cseq, seqof, closing, shutdown, codecClosed, sockClosed, wq, rdq, fin, rd, ctxst>>
    /\ UNCHANGED <<wvars, svars, issued, slog, wresp>>

WriteFail(c, dAlways) ==
    /\ (codecClosed \/ nwfail < MaxWFail)
    /\ nwfail' = IF codecClosed THEN nwfail ELSE nwfail + 1
    /\ WriteFailWith(c, WErr, dAlways)
    /\ UNCHANGED <<nmfail, ndup, nunk, ncut, nclose>>

WriteFailClosed(c, dAlways) == codecClosed /\ WriteFail(c, dAlways)      \* fails by itself
WriteFailInjected(c, dAlways) == ~codecClosed /\ WriteFail(c, dAlways)   \* the transport fails the write

MarshalFail(c, dAlways) ==
    /\ c \notin Pings
    /\ nmfail < MaxMFail
    /\ nmfail' = nmfail + 1
    /\ WriteFailWith(c, WErr, dAlways)
    /\ UNCHANGED <<nwfail, ndup, nunk, ncut, nclose>>

--------------------------------------------------------------------------------
\* Client: reader goroutine (recv) and decode queue.

InlineBusy == \E i \in 1..Len(fin) : fin[i].via = "inline"   \* the decode worker is completing a call itself
ReaderBusyInline == CliDirect /\ (rdq # <<>> \/ InlineBusy)   \* direct I/O: the reader decodes itself

ReaderRecv ==
    /\ rd = "reading"
    /\ s2c # <<>>
    /\ ~ReaderBusyInline
    /\ LET f == Head(s2c) IN        \* (early: taken off the wire before the codec's closed flag was set)
       rdq' = Append(rdq, [k |-> f.k, seq |-> f.seq, c |-> f.c, err |-> f.err, early |-> ~codecClosed])
    /\ s2c' = Tail(s2c)
    /\ UNCHANGED <<cseq, seqof, pending, closing, shutdown, codecClosed, sockClosed, cst, wq, fin, rd,
                   ncomp, res, res0, ctxst>>
    /\ UNCHANGED <<c2s, cut, svars, bvars, hvars>>

\* How a dispatched response will be completed.
Via(c, f, dInline) ==
    IF c \in Pings THEN "inline"                      \* heartbeat ack: call.done() in read()
    ELSE IF f.err /\ (dInline \/ ~CliPipe) THEN "inline"  \* error text: completed by the decode worker
    ELSE IF CliPipe THEN "queue"                      \* readSched (single worker, FIFO)
    ELSE IF CliDirect THEN "inline"                   \* finishCall called directly
    ELSE "pool"                                       \* global scheduler: any order

\* read(): header decoded; under the mutex look the call up and remove it.
\* Once the codec's closed flag is set ReadResponseHeader fails and the frame is dropped (drop). The flag is read without a
\* lock, ahead of the mutex: for a frame received before the flag was set the decode may have passed that test already, and
\* the dispatch under the mutex then comes after the close.
ReaderDispatch(dInline, dKeep, drop) ==
    /\ rdq # <<>>
    /\ ~InlineBusy
    /\ (drop => codecClosed) /\ (~drop => (~codecClosed \/ Head(rdq).early))
    /\ LET f == Head(rdq)
           hit == {c \in pending : seqof[c] = f.seq}
       IN
       /\ rdq' = Tail(rdq)
       /\ IF drop \/ shutdown \/ hit = {}
            THEN UNCHANGED <<pending, fin>>
            ELSE LET c == CHOOSE x \in hit : TRUE IN
                 /\ pending' = IF dKeep THEN pending ELSE pending \ {c}
                 /\ fin' = Append(fin, [c |-> c, f |-> f, via |-> Via(c, f, dInline)])
    /\ NoCompletion
    /\ UNCHANGED <<cseq, seqof, closing, shutdown, codecClosed, sockClosed, cst, wq, rd, ctxst>>
    /\ UNCHANGED <<wvars, svars, bvars, issued, slog, wresp>>

\* finishCall / the inline completions of read(): set the outcome, signal Done.
\* Deviation AbandonRecycles: CallWithContext gives the Call object of an abandoned call back to the (process-wide) pool although
\* the table still refers to it; a call started later takes the object, and the late response of the abandoned call completes
\* that later call (one started after the cancellation) - with the reply computed from the abandoned call's arguments.
PosIn(sq, x) == CHOOSE i \in 1..Len(sq) : sq[i] = x
Marked(c) == \E i \in 1..Len(issued) : issued[i] = 0 - c
Recyclers(c) == IF ~Marked(c) THEN {}
                ELSE {d \in Calls \ {c} : ncomp[d] = 0 /\ cst[d] \in {"wq", "sending", "reg", "wrote"}
                                          /\ PosIn(issued, d) > PosIn(issued, 0 - c)}
FinishTarget(c, dRecycle) == IF dRecycle /\ ctxst[c] = "cancelled" /\ Recyclers(c) # {}
                             THEN CHOOSE d \in Recyclers(c) : TRUE ELSE c

Finish(c, dUnordered, dRecycle) ==
    /\ \E j \in 1..Len(fin) : fin[j].c = c
    /\ LET i == FirstIdx(fin, c)
           e == fin[i] IN
       /\ (e.via = "queue" /\ ~dUnordered => \A j \in 1..(i-1) : fin[j].via # "queue")
       /\ Complete(FinishTarget(c, dRecycle), IF e.f.err THEN SrvErr(e.f.c) ELSE Ok(e.f.c))
       /\ fin' = RemoveAt(fin, i)
    /\ pending' = IF "RemoveAtFinish" \in Dev THEN pending \ {c} ELSE pending
    /\ UNCHANGED <<cseq, seqof, closing, shutdown, codecClosed, sockClosed, cst, wq, rdq, rd, ctxst>>
    /\ UNCHANGED <<wvars, svars, bvars, issued, slog, wresp>>

\* ReadMessage returned an error: peer EOF (after everything still on the wire has been
\* consumed), or the local socket was closed.  Under the mutex: shutdown := TRUE and
\* every entry of the table is completed and (intended design) removed.
\* Intended design: the reader first lets its decode queue drain, so a response that
\* was completely received before the end is never turned into ErrShutdown.
ReaderEOF(ioerr, dNoDrain, dKeep, dSkip) ==
    /\ rd = "reading"
    /\ \/ (cut /\ s2c = <<>>)
       \/ sockClosed
    /\ (ioerr => ~sockClosed)
    /\ (dNoDrain \/ rdq = <<>>)
    /\ ~ReaderBusyInline
    /\ rd' = "swept"
    /\ shutdown' = TRUE
    /\ LET S == IF dSkip /\ pending # {}
                  THEN pending \ {CHOOSE c \in pending : TRUE} ELSE pending IN
       /\ CompleteSet(S, IF ioerr THEN IOErr ELSE Shut)
       /\ pending' = IF dKeep THEN pending ELSE pending \ S
    /\ UNCHANGED <<cseq, seqof, closing, codecClosed, sockClosed, cst, wq, rdq, fin, ctxst>>
    /\ UNCHANGED <<wvars, svars, bvars, issued, slog, wresp>>

\* Conn.Close: closing := TRUE under the mutex, then codec.Close(): the codec's
\* closed flag is set (lock-free), then the socket is closed.
Close1 ==
    /\ nclose < MaxClose
    /\ ~closing
    /\ nclose' = nclose + 1
    /\ closing' = TRUE
    /\ UNCHANGED <<cseq, seqof, pending, shutdown, codecClosed, sockClosed, cst, wq, rdq, fin, rd,
                   ncomp, res, res0, ctxst>>
    /\ UNCHANGED <<wvars, svars, nwfail, nmfail, ndup, nunk, ncut, hvars>>

CloseDup ==       \* a second Close reports ErrShutdown and changes nothing
    /\ nclose < MaxClose
    /\ closing
    /\ nclose' = nclose + 1
    /\ UNCHANGED <<cvars, wvars, svars, nwfail, nmfail, ndup, nunk, ncut, hvars>>

Close2a ==
    /\ closing /\ ~codecClosed
    /\ codecClosed' = TRUE
    /\ UNCHANGED <<cseq, seqof, pending, closing, shutdown, sockClosed, cst, wq, rdq, fin, rd,
                   ncomp, res, res0, ctxst>>
    /\ UNCHANGED <<wvars, svars, bvars, hvars>>

Close2b ==
    /\ codecClosed /\ ~sockClosed
    /\ sockClosed' = TRUE
    /\ cut' = TRUE                       \* the peer will see the end of the stream
    /\ UNCHANGED <<cseq, seqof, pending, closing, shutdown, codecClosed, cst, wq, rdq, fin, rd,
                   ncomp, res, res0, ctxst>>
    /\ UNCHANGED <<c2s, s2c, svars, bvars, hvars>>

\* CallWithContext's select.
CtxReturnDone(c) ==
    /\ ctxst[c] = "waiting" /\ ncomp[c] > 0
    /\ ctxst' = [ctxst EXCEPT ![c] = "done"]
    /\ UNCHANGED <<cseq, seqof, pending, closing, shutdown, codecClosed, sockClosed, cst, wq, rdq, fin, rd,
                   ncomp, res, res0>>
    /\ UNCHANGED <<wvars, svars, bvars, hvars>>

CtxCancel(c) ==
    /\ ctxst[c] = "waiting"
    /\ ctxst' = [ctxst EXCEPT ![c] = "cancelled"]
    \* (deviation AbandonRecycles only: the moment of the cancellation is marked in the issue history, so that "started
    \*  afterwards" can be told; the marker -c is not a call and does not disturb the order properties)
    /\ issued' = IF "AbandonRecycles" \in Dev THEN Append(issued, 0 - c) ELSE issued
    /\ UNCHANGED <<cseq, seqof, pending, closing, shutdown, codecClosed, sockClosed, cst, wq, rdq, fin, rd,
                   ncomp, res, res0>>
    /\ UNCHANGED <<wvars, svars, bvars, slog, wresp, comps>>

--------------------------------------------------------------------------------
\* Network / peer misbehaviour.

Cut(la, lb) ==    \* the connection is cut; the newest la / lb frames in flight are lost with it
    /\ ncut < MaxCut /\ ~cut
    /\ la <= Len(c2s) /\ lb <= Len(s2c)
    /\ ncut' = ncut + 1
    /\ cut' = TRUE
    /\ c2s' = SubSeq(c2s, 1, Len(c2s) - la)
    /\ s2c' = SubSeq(s2c, 1, Len(s2c) - lb)
    /\ UNCHANGED <<cvars, svars, nwfail, nmfail, ndup, nunk, nclose, hvars>>

InjectDup(c) ==   \* a true duplicate of the response the server already wrote for c
    /\ ndup < MaxDup /\ ~cut
    /\ \E i \in 1..Len(wresp) : wresp[i].c = c
    /\ s2c' = Append(s2c, wresp[CHOOSE i \in 1..Len(wresp) : wresp[i].c = c])
    /\ ndup' = ndup + 1
    /\ UNCHANGED <<cvars, c2s, cut, svars, nwfail, nmfail, nunk, ncut, nclose, hvars>>

InjectUnk(e) ==   \* a response carrying a sequence number nobody waits for
    /\ nunk < MaxUnk /\ ~cut
    /\ s2c' = Append(s2c, Resp(UnkSeq, NoCall, e))
    /\ nunk' = nunk + 1
    /\ UNCHANGED <<cvars, c2s, cut, svars, nwfail, nmfail, ndup, ncut, nclose, hvars>>

--------------------------------------------------------------------------------
\* Server connection (ServeCodec / poll branch): reader, decode queue, handlers.

SrvPingBusy == \E f \in sdone : f.k = "ping"     \* the decode worker is answering a heartbeat itself
SrvReaderBusyInline == SrvDirect /\ (sdq # <<>> \/ SrvPingBusy)

SrvRecv ==
    /\ ~seof /\ c2s # <<>>
    /\ ~SrvReaderBusyInline
    /\ sdq' = Append(sdq, Head(c2s))
    /\ c2s' = Tail(c2s)
    /\ UNCHANGED <<cvars, s2c, cut, sxq, sexec, sdone, seof, bvars, hvars>>

SrvEOF ==
    /\ ~seof /\ cut /\ c2s = <<>>
    /\ ~SrvReaderBusyInline
    /\ seof' = TRUE
    /\ UNCHANGED <<cvars, wvars, sdq, sxq, sexec, sdone, bvars, hvars>>

\* ServeRequest on the decode worker: a heartbeat is answered by the worker itself;
\* a unary request - whatever its method name - is handed to the handler queue (wg.Add).
SrvDecode(dPing, dDup, dNoMethodInline) ==
    /\ sdq # <<>>
    /\ ~SrvPingBusy
    /\ LET f == Head(sdq) IN
       /\ sdq' = Tail(sdq)
       /\ IF (f.k = "ping" /\ ~dPing) \/ (f.c \in NoMethodCalls /\ dNoMethodInline)
            THEN /\ sdone' = sdone \cup {f}
                 /\ sxq' = sxq
            ELSE /\ sxq' = IF dDup THEN sxq \o <<f, f>> ELSE Append(sxq, f)
                 /\ sdone' = sdone
    /\ UNCHANGED <<cvars, wvars, sexec, seof, bvars, hvars>>

\* After the end of the stream the teardown closes the server codec; requests still on the
\* decode queue then fail to decode and are dropped (a request immediately followed by EOF
\* may legitimately be dropped: the connection is no longer live).
SrvDrop ==
    /\ seof /\ sdq # <<>>
    /\ ~SrvPingBusy
    /\ sdq' = Tail(sdq)
    /\ UNCHANGED <<cvars, wvars, sxq, sexec, sdone, seof, bvars, hvars>>

\* handleRequest for a method the server does not have: on the handler queue, in its turn, the lookup fails and the
\* error response is prepared; no user code runs
SrvLookupFail(c, dUnordered) ==
    /\ c \in NoMethodCalls
    /\ \E j \in 1..Len(sxq) : sxq[j].c = c
    /\ LET i == FirstIdx(sxq, c) IN
       /\ (SrvPipe /\ ~dUnordered => i = 1 /\ sexec = {} /\ \A f \in sdone : f.k = "ping")
       /\ sdone' = sdone \cup {sxq[i]}
       /\ sxq' = RemoveAt(sxq, i)
    /\ UNCHANGED <<cvars, wvars, sdq, sexec, seof, bvars, hvars>>

SrvExecBegin(c, dUnordered) ==
    /\ c \notin NoMethodCalls
    /\ \E j \in 1..Len(sxq) : sxq[j].c = c
    /\ LET i == FirstIdx(sxq, c) IN
       /\ (SrvPipe /\ ~dUnordered => i = 1 /\ sexec = {} /\ \A f \in sdone : f.k = "ping")
       /\ sexec' = sexec \cup {sxq[i]}
       /\ slog' = Append(slog, sxq[i].c)
       /\ sxq' = RemoveAt(sxq, i)
    /\ UNCHANGED <<cvars, wvars, sdq, sdone, seof, bvars, issued, wresp, comps>>

SrvExecEnd(c) ==
    /\ \E f \in sexec : f.c = c
    /\ LET f == CHOOSE g \in sexec : g.c = c IN
       /\ sexec' = sexec \ {f}
       /\ sdone' = sdone \cup {f}
    /\ UNCHANGED <<cvars, wvars, sdq, sxq, seof, bvars, hvars>>

\* WriteResponse: the frame goes onto the wire unless the connection is cut.
SrvRespond(c, dWrongSeq) ==
    /\ \E f \in sdone : f.c = c
    /\ LET f == CHOOSE g \in sdone : g.c = c
           s == IF dWrongSeq /\ f.seq > 0 THEN f.seq - 1 ELSE f.seq
           r == Resp(s, f.c, f.c \in FailCalls) IN
       /\ sdone' = sdone \ {f}
       /\ s2c' = IF cut THEN s2c ELSE Append(s2c, r)
       /\ wresp' = IF cut THEN wresp ELSE Append(wresp, r)
    /\ UNCHANGED <<cvars, c2s, cut, sdq, sxq, sexec, seof, bvars, issued, slog, comps>>

--------------------------------------------------------------------------------
LibraryStep ==     \* steps the library takes by itself (fairness applies to these only)
    \/ \E c \in Calls : WqTake(c)
    \/ \E c \in Calls : Refuse(c) \/ WriteOK(c)
    \/ \E c \in Calls : \E d1 \in DevChoice("NoRefuseAfterShutdown") : \E d2 \in DevChoice("SeqReuse") : Register(c, d1, d2)
    \/ \E c \in Calls : \E d \in DevChoice("WriteFailAlwaysCompletes") : WriteFailClosed(c, d)
    \/ ReaderRecv
    \/ \E d1 \in DevChoice("ErrorInline") : \E d2 \in (IF "RemoveAtFinish" \in Dev THEN {TRUE} ELSE DevChoice("DispatchKeepsEntry")) : \E drop \in BOOLEAN : ReaderDispatch(d1, d2, drop)
    \/ \E c \in Calls : \E d \in DevChoice("UnorderedFinish") : \E dr \in DevChoice("AbandonRecycles") : Finish(c, d, dr)
    \/ \E d1 \in DevChoice("SweepBeforeDrain") : \E d2 \in DevChoice("SweepKeepsEntries") :
            \E d3 \in DevChoice("SweepSkips") : ReaderEOF(FALSE, d1, d2, d3)
    \/ Close2a \/ Close2b
    \/ \E c \in Calls : CtxReturnDone(c)
    \/ SrvRecv \/ SrvEOF \/ SrvDrop
    \/ \E d1 \in DevChoice("PingRunsHandler") : \E d2 \in DevChoice("DupExec") : \E d3 \in DevChoice("LookupFailInline") : SrvDecode(d1, d2, d3)
    \/ \E c \in Calls : \E d \in (DevChoice("UnorderedExec") \cup (IF "EofRunsQueued" \in Dev /\ seof THEN {TRUE} ELSE {})) : SrvExecBegin(c, d) \/ SrvLookupFail(c, d)
    \/ \E c \in Calls : \E d \in DevChoice("EchoWrongSeq") : SrvRespond(c, d)

EnvStep ==         \* choices of the user, the handlers, the network and the peer
    \/ \E c \in Calls : Start(c)
    \/ \E c \in Calls : \E d \in DevChoice("WriteFailAlwaysCompletes") : WriteFailInjected(c, d)
    \/ \E c \in Calls : \E d \in DevChoice("WriteFailAlwaysCompletes") : MarshalFail(c, d)
    \/ \E d1 \in DevChoice("SweepBeforeDrain") : \E d2 \in DevChoice("SweepKeepsEntries") :
            \E d3 \in DevChoice("SweepSkips") : ReaderEOF(TRUE, d1, d2, d3)
    \/ Close1 \/ CloseDup
    \/ \E c \in Calls : CtxCancel(c)
    \/ \E la, lb \in 0..MaxLoss : Cut(la, lb)
    \/ \E c \in Calls : InjectDup(c)
    \/ \E e \in BOOLEAN : InjectUnk(e)
    \/ \E c \in Calls : SrvExecEnd(c)

Next == LibraryStep \/ EnvStep

Spec == Init /\ [][Next]_vars

\* Liveness is checked under fairness of the library's own steps and of handler
\* return (a handler that never returns is the user's business).
Fairness ==
    /\ WF_vars(LibraryStep)
    /\ \A c \in Calls : WF_vars(SrvExecEnd(c))
LiveSpec == Spec /\ Fairness

--------------------------------------------------------------------------------
\* ============================ PROPERTIES =================================

TypeOK ==
    /\ cseq \in Nat
    /\ pending \subseteq Calls
    /\ \A c \in Calls : ncomp[c] \in Nat
    /\ rd \in {"reading", "swept"}

\* ---- C01: a successful call got the reply computed from its own arguments
ReplyOwn == \A c \in Calls : res[c].kind = "ok" => res[c].val = c
SeqUnique == \A c, d \in Calls : c # d /\ seqof[c] >= 0 /\ seqof[d] >= 0 => seqof[c] # seqof[d]
EchoSeq == \A i \in 1..Len(wresp) : wresp[i].c # NoCall => wresp[i].seq = seqof[wresp[i].c]

\* ---- C02: every call completes exactly once
AtMostOnce == \A c \in Calls : ncomp[c] <= 1
ResultStable == \A c \in Calls : ncomp[c] >= 1 => res[c] = res0[c]
CompletedHasResult == \A c \in Calls : (ncomp[c] >= 1) <=> (res[c].kind # "none")
\* a call is owed exactly one completion while some structure still holds it
Held(c) == \/ cst[c] \in {"wq", "sending"}
           \/ c \in pending
           \/ \E i \in 1..Len(fin) : fin[i].c = c
           \/ (cst[c] = "reg" /\ ncomp[c] = 0)      \* write in progress, entry already taken
Owed == \A c \in Calls : (cst[c] # "new" /\ ncomp[c] = 0) => Held(c)
NotHeldOnceCompleted ==
    \A c \in Calls : ncomp[c] >= 1 => \A i \in 1..Len(fin) : fin[i].c # c
EventuallyOnce ==      \* liveness: every started call completes once the link has ended
    \A c \in Calls : (cst[c] # "new" /\ (cut \/ sockClosed)) ~> (ncomp[c] >= 1)

\* ---- C03: connection loss fails calls fast
RefusedAfterShutdown ==
    \A c \in Calls : cst[c] = "refused" => res0[c] = Shut
NoRegisterAfterShutdown ==      \* action property
    [][\A c \in Calls : (cst[c] = "sending" /\ cst'[c] = "reg") => ~(shutdown \/ closing)]_vars
\* a response completely received (taken off the wire by the reader) before the end
\* is never turned into ErrShutdown by the sweep (unless a local Close discards it)
ReceivedNotSwept ==
    [][\A c \in Calls :
         (ncomp[c] = 0 /\ ncomp'[c] = 1 /\ res'[c].kind \in {"shutdown", "ioerr"} /\ cst[c] = "wrote" /\ ~codecClosed)
            => ~\E i \in 1..Len(rdq) : rdq[i].seq = seqof[c] /\ rdq[i].k = "resp"]_vars
SweepComplete == rd = "swept" => \A c \in pending : ncomp[c] >= 1
AfterSweepAllDone ==
    (rd = "swept" /\ rdq = <<>> /\ fin = <<>>)
        => \A c \in Calls : cst[c] \in {"wrote"} => ncomp[c] >= 1

\* ---- C04: the server executes each received request exactly once, answers once
ExecCount(c) == Cardinality({i \in 1..Len(slog) : slog[i] = c})
RespCount(c) == Cardinality({i \in 1..Len(wresp) : wresp[i].c = c})
ExecAtMostOnce == \A c \in Calls : ExecCount(c) <= 1
ExecOnlySent == \A i \in 1..Len(slog) : slog[i] \in Calls /\ cst[slog[i]] = "wrote"
PingNoExec == \A c \in Pings : ExecCount(c) = 0
OneResponsePerRequest == \A c \in Calls : RespCount(c) <= 1
OkImpliesExecOnce == \A c \in Calls \ Pings : res[c].kind = "ok" => ExecCount(c) = 1
RespondedImpliesExec == \A c \in Calls \ (Pings \cup NoMethodCalls) : RespCount(c) >= 1 => ExecCount(c) = 1
NoMethodNoExec == \A c \in NoMethodCalls : ExecCount(c) = 0

\* ---- C05: pipelining keeps order
IsSubSeqOf(s, t) ==   \* s is obtained from t by deleting elements
    LET n == Len(s) m == Len(t)
        RECURSIVE P(_, _)
        P(i, j) == IF i > n THEN TRUE
                   ELSE IF j > m THEN FALSE
                   ELSE IF s[i] = t[j] THEN P(i+1, j+1) ELSE P(i, j+1)
    IN P(1, 1)
SelectCalls(s, S) == SelectSeq(s, LAMBDA x : x \in S)
\* Order is promised to the asynchronous calls one goroutine issues (the blocking forms run in
\* goroutines of their own and reach the write queue in no fixed order).
AsyncCalls == {c \in Calls : Async(c)}
ExecInOrder == SrvPipe /\ CliPipe => IsSubSeqOf(SelectCalls(slog, AsyncCalls), issued)
AtMostOneExecuting ==
    SrvPipe => Cardinality(sexec) + Cardinality({f \in sdone : f.k # "ping"}) <= 1
\* (a heartbeat has no handler: it is answered by the decode worker itself and is not a
\*  "request executed" in the sense of the property; order is required of requests)
RespInOrder ==
    SrvPipe /\ CliPipe =>
        IsSubSeqOf(SelectCalls([i \in 1..Len(wresp) |-> wresp[i].c], AsyncCalls), issued)
\* response-driven completions (success or server-reported error) in issue order
RespDriven == {c \in AsyncCalls : res0[c].kind \in {"ok", "srverr"}}
\* (promised for a peer that answers each request once: when the peer repeats a response and a local Close discards the first copy -
\*  the codec's closed flag is tested frame by frame, without a lock - the repeated copy may complete its call behind a later one)
CompInOrder == SrvPipe /\ CliPipe /\ ndup = 0 => IsSubSeqOf(SelectCalls(comps, RespDriven), issued)

\* ---- C06: errors reach exactly the failing call, verbatim
ErrToOwner == \A c \in Calls : res[c].kind = "srverr" => res[c].val = c /\ c \in FailCalls
OkOnlyIfHandlerOk == \A c \in Calls : res[c].kind = "ok" => c \notin FailCalls
MarshalFailNoResidue == \A c \in Calls : cst[c] = "wfail" => c \notin pending

\* ---- C19: context cancellation
AbandonedHarmless ==     \* a late response only touches its own call
    \A c \in Calls : ctxst[c] = "cancelled" => (res[c].kind = "ok" => res[c].val = c)
CtxDoneOnlyAfterSignal == \A c \in Calls : ctxst[c] = "done" => ncomp[c] >= 1

================================================================================
