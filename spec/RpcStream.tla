------------------------------- MODULE RpcStream -------------------------------
(******************************************************************************)
(* Streams of hslam/rpc on one connection (conn.go NewStream / read / stream.go, *)
(* server.go ServeRequest / callService / ServeCodec teardown / poll branch).    *)
(* A stream reuses the sequence number of its opening call; the handshake is     *)
(* modelled in the code's own steps so that "the first server write relative to  *)
(* stream establishment" is explored exhaustively:                               *)
(*   server: decode(open) registers the stream, writes the ack and starts the    *)
(*           handler goroutine (two steps whose order is the code's),            *)
(*   client: the reader classifies every frame of the stream's sequence number   *)
(*           by the *current* phase of the opening call (still opening: the      *)
(*           frame is taken for the ack; streaming: it is a message), and the    *)
(*           move to "streaming" is a step of its own.                           *)
(* Messages are abstract: message n of stream s in direction d is <<s, d, n>>.   *)
(******************************************************************************)
EXTENDS Integers, Sequences, FiniteSets, TLC

CONSTANTS
    Streams,      \* stream identifiers (positive integers; opened in any order)
    MaxPush,      \* messages the handler of a stream may write
    MaxSend,      \* messages the client may write on a stream
    MaxBad,       \* client writes per stream that fail to encode
    Poll,         \* BOOLEAN: the server connection runs in the poll-mode branch of listen()
    AllowCut,     \* BOOLEAN: the connection may be cut (peer/network)
    AllowClose,   \* BOOLEAN: the client may close streams
    Dev

Deviations == { "AckAfterHandlerStart",  \* the handler goroutine is started before the ack is written (code before fix D6)
                "FlipInCaller",          \* the opening call is moved to streaming by NewStream's caller, not by the reader (before fix D6)
                "PollNoStreamSweep",     \* poll-mode teardown does not close the connection's streams (before fix D7)
                "NoClientSweep",         \* the client's reader does not stop its streams when the connection ends
                "StopNoBroadcast",       \* stop() does not wake blocked readers
                "CloseWrongEntry",       \* close-stream removes another stream's entry
                "DupDeliver",            \* a message is queued twice
                "CrossDeliver",          \* a message is queued on another stream
                "WriteFailDropsRoute",   \* a failed write of a stream message removes the opening call's entry, so later messages of the server are dropped
                "WriteFailDropsStream" } \* a failed write of a stream message removes the stream from the connection's table, so the sweep misses it
ASSUME Dev \subseteq Deviations
DevChoice(d) == IF d \in Dev THEN BOOLEAN ELSE {FALSE}

VARIABLES
    \* ---- client ----
    cph,       \* cph[s]: "none" / "opening" (open call sent) / "acked" (Done signalled, not yet streaming) / "streaming" / "closing" / "closed"
    flipped,   \* flipped[s]: the opening call's upgrade says "streaming" (frames of s are messages from now on)
    cstop,     \* cstop[s]: client stream.closed
    cq,        \* cq[s]: events queued on the client stream, not yet read
    cgot,      \* cgot[s]: what the client's ReadMessage calls returned so far (history)
    cblocked,  \* cblocked[s]: a client ReadMessage is blocked on the empty queue
    cshut,     \* cshut[s]: a client ReadMessage/WriteMessage has returned ErrStreamShutdown
    nsent,     \* nsent[s]: messages the client wrote
    nbad,      \* nbad[s]: client writes that failed to encode (nothing was sent)
    creader,   \* client reader: "reading" / "swept"
    \* ---- wires ----
    c2s, s2c, cut,
    \* ---- server ----
    sreg,      \* sreg[s]: the stream is in the connection's stream table
    sacked,    \* sacked[s]: the ack has been written
    hst,       \* hst[s]: handler "none" / "running" / "returned"
    sstop,     \* sstop[s]: server stream.closed
    sq, sgot, sblocked, sshut, npush,
    cackp,     \* close-stream requests dispatched whose acknowledgement is still to be written
    steardown  \* server connection: "serving" / "eof" / "done"

vars == <<cph, flipped, cstop, cq, cgot, cblocked, cshut, nsent, nbad, creader, c2s, s2c, cut,
          sreg, sacked, hst, sstop, sq, sgot, sblocked, sshut, npush, cackp, steardown>>

Msg(s, d, n) == <<s, d, n>>
F(k, s, n) == [k |-> k, s |-> s, n |-> n]    \* frame kinds: open ack msg close closeack

Init ==
    /\ cph = [s \in Streams |-> "none"] /\ flipped = [s \in Streams |-> FALSE] /\ cstop = [s \in Streams |-> FALSE]
    /\ cq = [s \in Streams |-> <<>>] /\ cgot = [s \in Streams |-> <<>>] /\ cblocked = [s \in Streams |-> FALSE]
    /\ cshut = [s \in Streams |-> FALSE] /\ nsent = [s \in Streams |-> 0] /\ nbad = [s \in Streams |-> 0] /\ creader = "reading"
    /\ c2s = <<>> /\ s2c = <<>> /\ cut = FALSE
    /\ sreg = [s \in Streams |-> FALSE] /\ sacked = [s \in Streams |-> FALSE] /\ hst = [s \in Streams |-> "none"]
    /\ sstop = [s \in Streams |-> FALSE] /\ sq = [s \in Streams |-> <<>>] /\ sgot = [s \in Streams |-> <<>>]
    /\ sblocked = [s \in Streams |-> FALSE] /\ sshut = [s \in Streams |-> FALSE] /\ npush = [s \in Streams |-> 0]
    /\ steardown = "serving" /\ cackp = {}

Send(w, f) == IF cut THEN w ELSE Append(w, f)

--------------------------------------------------------------------------------
\* Client side.
Open(s) ==        \* NewStream: the open call is registered and written
    /\ cph[s] = "none" /\ creader = "reading"
    /\ cph' = [cph EXCEPT ![s] = "opening"]
    /\ c2s' = Send(c2s, F("open", s, 0))
    /\ UNCHANGED <<flipped, cstop, cq, cgot, cblocked, cshut, nsent, nbad, creader, s2c, cut, sreg, sacked, hst, sstop, sq, sgot, sblocked, sshut, npush, cackp, steardown>>

\* the reader takes a frame of stream s off the wire and dispatches it by the current phase of the opening call
ReaderFrame(dFlipInCaller, dDup, dCross) ==
    /\ creader = "reading" /\ s2c # <<>>
    /\ LET f == Head(s2c)
           s == f.s IN
       /\ s2c' = Tail(s2c)
       /\ IF f.k = "closeack"
            THEN /\ cph' = [cph EXCEPT ![s] = IF @ = "closing" THEN "closed" ELSE @]
                 /\ UNCHANGED <<flipped, cq>>
          ELSE IF cph[s] \in {"none", "closed"} THEN UNCHANGED <<cph, flipped, cq>>       \* nobody waits: dropped
          ELSE IF ~flipped[s]
            THEN \* the opening call is still "open stream": whatever arrives is taken for the ack (Done is signalled;
                 \* a second signal is dropped by the full channel)
                 /\ cph' = [cph EXCEPT ![s] = IF @ = "opening" THEN "acked" ELSE @]
                 /\ flipped' = IF dFlipInCaller THEN flipped ELSE [flipped EXCEPT ![s] = TRUE]   \* intended: the reader flips, under the lock
                 /\ UNCHANGED cq
            ELSE IF "WriteFailDropsRoute" \in Dev /\ nbad[s] > 0 THEN UNCHANGED <<cph, flipped, cq>>   \* deviation: the routing entry went with the failed write
            ELSE \* a stream message (an ack arriving now is delivered as an empty message)
                 LET t == IF dCross /\ \E o \in Streams : o # s THEN CHOOSE o \in Streams : o # s ELSE s
                     m == IF f.k = "msg" THEN Msg(s, "s2c", f.n) ELSE Msg(s, "s2c", 0) IN
                 /\ cq' = [cq EXCEPT ![t] = IF dDup THEN Append(Append(@, m), m) ELSE Append(@, m)]
                 /\ UNCHANGED <<cph, flipped>>
    /\ UNCHANGED <<cstop, cgot, cblocked, cshut, nsent, nbad, creader, c2s, cut, sreg, sacked, hst, sstop, sq, sgot, sblocked, sshut, npush, cackp, steardown>>

\* NewStream returns to its caller once Done was signalled; (before fix D6) the caller then flips the call to streaming
Established(s) ==
    /\ cph[s] = "acked"
    /\ cph' = [cph EXCEPT ![s] = "streaming"]
    /\ flipped' = [flipped EXCEPT ![s] = TRUE]
    /\ UNCHANGED <<cstop, cq, cgot, cblocked, cshut, nsent, nbad, creader, c2s, s2c, cut, sreg, sacked, hst, sstop, sq, sgot, sblocked, sshut, npush, cackp, steardown>>

CliWrite(s) ==
    /\ cph[s] = "streaming" /\ nsent[s] < MaxSend /\ ~cstop[s]
    /\ nsent' = [nsent EXCEPT ![s] = @ + 1]
    /\ c2s' = Send(c2s, F("msg", s, nsent[s] + 1))
    /\ UNCHANGED <<cph, flipped, cstop, cq, cgot, cblocked, cshut, nbad, creader, s2c, cut, sreg, sacked, hst, sstop, sq, sgot, sblocked, sshut, npush, cackp, steardown>>

\* a client write whose message cannot be encoded: the call fails locally, nothing is sent, the stream stays usable
CliWriteFail(s) ==
    /\ cph[s] = "streaming" /\ nbad[s] < MaxBad /\ ~cstop[s]
    /\ nbad' = [nbad EXCEPT ![s] = @ + 1]
    /\ UNCHANGED <<cph, flipped, cstop, cq, cgot, cblocked, cshut, nsent, creader, c2s, s2c, cut, sreg, sacked, hst, sstop, sq, sgot, sblocked, sshut, npush, cackp, steardown>>

\* client ReadMessage: takes the next event, or blocks, or reports the shutdown
CliRead(s) ==
    /\ cph[s] \in {"streaming", "stopping", "closing", "closed"}
    /\ IF cstop[s] THEN /\ cshut' = [cshut EXCEPT ![s] = TRUE] /\ cblocked' = [cblocked EXCEPT ![s] = FALSE] /\ UNCHANGED <<cq, cgot>>
       ELSE IF cq[s] # <<>> THEN /\ cgot' = [cgot EXCEPT ![s] = Append(@, Head(cq[s]))] /\ cq' = [cq EXCEPT ![s] = Tail(@)]
                                 /\ cblocked' = [cblocked EXCEPT ![s] = FALSE] /\ UNCHANGED cshut
       ELSE /\ ~cblocked[s] /\ cblocked' = [cblocked EXCEPT ![s] = TRUE] /\ UNCHANGED <<cq, cgot, cshut>>
    /\ UNCHANGED <<cph, flipped, cstop, nsent, nbad, creader, c2s, s2c, cut, sreg, sacked, hst, sstop, sq, sgot, sblocked, sshut, npush, cackp, steardown>>

\* Stream.Close on the client: stop the local end, then send close-stream (a call: it waits for its ack)
CliClose(s) ==
    /\ AllowClose /\ cph[s] = "streaming"
    /\ cph' = [cph EXCEPT ![s] = "stopping"]
    /\ cstop' = [cstop EXCEPT ![s] = TRUE]
    /\ UNCHANGED <<flipped, cq, cgot, cblocked, cshut, nsent, nbad, creader, c2s, s2c, cut, sreg, sacked, hst, sstop, sq, sgot, sblocked, sshut, npush, cackp, steardown>>

CloseSend(s) ==
    /\ cph[s] = "stopping" /\ creader = "reading"
    /\ cph' = [cph EXCEPT ![s] = "closing"]
    /\ c2s' = Send(c2s, F("close", s, 0))
    /\ UNCHANGED <<flipped, cstop, cq, cgot, cblocked, cshut, nsent, nbad, creader, s2c, cut, sreg, sacked, hst, sstop, sq, sgot, sblocked, sshut, npush, cackp, steardown>>

\* the connection ended: the reader completes pending calls and stops every stream
CliSweep(dNoSweep) ==
    /\ creader = "reading" /\ cut /\ s2c = <<>>
    /\ creader' = "swept"
    /\ cstop' = IF dNoSweep THEN cstop
                ELSE [s \in Streams |-> cstop[s] \/ (cph[s] # "none" /\ ~("WriteFailDropsStream" \in Dev /\ nbad[s] > 0))]
    /\ cph' = [s \in Streams |-> IF cph[s] \in {"opening", "stopping", "closing"} THEN "closed" ELSE cph[s]]   \* their calls fail with ErrShutdown
    /\ UNCHANGED <<flipped, cq, cgot, cblocked, cshut, nsent, nbad, c2s, s2c, cut, sreg, sacked, hst, sstop, sq, sgot, sblocked, sshut, npush, cackp, steardown>>

--------------------------------------------------------------------------------
\* Server side.
SrvFrame(dCloseWrong) ==          \* decode worker: ServeRequest for the next frame
    /\ steardown # "done" /\ c2s # <<>>       \* (frames read before the end are still dispatched during the teardown's drain)
    /\ LET f == Head(c2s)
           s == f.s IN
       /\ c2s' = Tail(c2s)
       /\ CASE f.k = "open" ->
                 /\ sreg' = [sreg EXCEPT ![s] = TRUE]
                 /\ UNCHANGED <<sq, sstop, s2c, cackp>>
            [] f.k = "msg" ->
                 /\ sq' = IF sreg[s] THEN [sq EXCEPT ![s] = Append(@, Msg(s, "c2s", f.n))] ELSE sq
                 /\ UNCHANGED <<sreg, sstop, s2c, cackp>>
            [] f.k = "close" ->
                 LET t == IF dCloseWrong /\ \E o \in Streams : o # s /\ sreg[o] THEN CHOOSE o \in Streams : o # s /\ sreg[o] ELSE s IN
                 /\ sstop' = IF sreg[t] THEN [sstop EXCEPT ![t] = TRUE] ELSE sstop
                 /\ sreg' = [sreg EXCEPT ![t] = FALSE]
                 /\ cackp' = cackp \cup {s}
                 /\ UNCHANGED <<sq, s2c>>
    /\ UNCHANGED <<cph, flipped, cstop, cq, cgot, cblocked, cshut, nsent, nbad, creader, cut, sacked, hst, sgot, sblocked, sshut, npush, steardown>>

SrvCloseAck(s) ==     \* the acknowledgement of a close-stream request is written
    /\ s \in cackp
    /\ cackp' = cackp \ {s}
    /\ s2c' = Send(s2c, F("closeack", s, 0))
    /\ UNCHANGED <<cph, flipped, cstop, cq, cgot, cblocked, cshut, nsent, nbad, creader, c2s, cut, sreg, sacked, hst, sstop, sq, sgot, sblocked, sshut, npush, steardown>>

\* callService for an open-stream request: the ack is written and the handler goroutine started
\* (intended order: ack first; the code before fix D6 starts the goroutine first)
SrvAck(s) ==
    /\ sreg[s] /\ ~sacked[s]
    /\ sacked' = [sacked EXCEPT ![s] = TRUE]
    /\ s2c' = Send(s2c, F("ack", s, 0))
    /\ UNCHANGED <<cph, flipped, cstop, cq, cgot, cblocked, cshut, nsent, nbad, creader, c2s, cut, sreg, hst, sstop, sq, sgot, sblocked, sshut, npush, cackp, steardown>>

HandlerStart(s, dEarly) ==
    /\ sreg[s] /\ hst[s] = "none"
    /\ (sacked[s] \/ dEarly)
    /\ hst' = [hst EXCEPT ![s] = "running"]
    /\ UNCHANGED <<cph, flipped, cstop, cq, cgot, cblocked, cshut, nsent, nbad, creader, c2s, s2c, cut, sreg, sacked, sstop, sq, sgot, sblocked, sshut, npush, cackp, steardown>>

Push(s) ==        \* the handler writes a message
    /\ hst[s] = "running" /\ npush[s] < MaxPush /\ ~sstop[s]
    /\ npush' = [npush EXCEPT ![s] = @ + 1]
    /\ s2c' = Send(s2c, F("msg", s, npush[s] + 1))
    /\ UNCHANGED <<cph, flipped, cstop, cq, cgot, cblocked, cshut, nsent, nbad, creader, c2s, cut, sreg, sacked, hst, sstop, sq, sgot, sblocked, sshut, cackp, steardown>>

SrvRead(s) ==     \* the handler reads
    /\ hst[s] = "running"
    /\ IF sstop[s] THEN /\ sshut' = [sshut EXCEPT ![s] = TRUE] /\ sblocked' = [sblocked EXCEPT ![s] = FALSE] /\ UNCHANGED <<sq, sgot>>
       ELSE IF sq[s] # <<>> THEN /\ sgot' = [sgot EXCEPT ![s] = Append(@, Head(sq[s]))] /\ sq' = [sq EXCEPT ![s] = Tail(@)]
                                 /\ sblocked' = [sblocked EXCEPT ![s] = FALSE] /\ UNCHANGED sshut
       ELSE /\ ~sblocked[s] /\ sblocked' = [sblocked EXCEPT ![s] = TRUE] /\ UNCHANGED <<sq, sgot, sshut, cackp>>
    /\ UNCHANGED <<cph, flipped, cstop, cq, cgot, cblocked, cshut, nsent, nbad, creader, c2s, s2c, cut, sreg, sacked, hst, sstop, npush, cackp, steardown>>

HandlerReturn(s) ==   \* a handler returns once it has seen the shutdown (a handler blocked in Read cannot return)
    /\ hst[s] = "running" /\ sshut[s]
    /\ hst' = [hst EXCEPT ![s] = "returned"]
    /\ UNCHANGED <<cph, flipped, cstop, cq, cgot, cblocked, cshut, nsent, nbad, creader, c2s, s2c, cut, sreg, sacked, sstop, sq, sgot, sblocked, sshut, npush, cackp, steardown>>

\* the server reader saw the end of the stream; the teardown (wait, close codec) then closes every stream still in the table
SrvEOF ==       \* (frames read before the end may still be waiting for the decode worker: the teardown drains them first)
    /\ steardown = "serving" /\ cut
    /\ steardown' = "eof"
    /\ UNCHANGED <<cph, flipped, cstop, cq, cgot, cblocked, cshut, nsent, nbad, creader, c2s, s2c, cut, sreg, sacked, hst, sstop, sq, sgot, sblocked, sshut, npush, cackp>>

SrvTeardown(dNoSweep) ==
    /\ steardown = "eof" /\ c2s = <<>>
    /\ steardown' = "done"
    /\ sstop' = IF dNoSweep THEN sstop ELSE [s \in Streams |-> sstop[s] \/ sreg[s]]
    /\ UNCHANGED <<cph, flipped, cstop, cq, cgot, cblocked, cshut, nsent, nbad, creader, c2s, s2c, cut, sreg, sacked, hst, sq, sgot, sblocked, sshut, npush, cackp>>

Cut ==
    /\ AllowCut /\ ~cut
    /\ cut' = TRUE
    /\ UNCHANGED <<cph, flipped, cstop, cq, cgot, cblocked, cshut, nsent, nbad, creader, c2s, s2c, sreg, sacked, hst, sstop, sq, sgot, sblocked, sshut, npush, cackp, steardown>>

LibraryStep ==
    \/ \E d1 \in DevChoice("FlipInCaller") : \E d2 \in DevChoice("DupDeliver") : \E d3 \in DevChoice("CrossDeliver") : ReaderFrame(d1, d2, d3)
    \/ \E s \in Streams : Established(s) \/ CloseSend(s)
    \/ \E d \in DevChoice("NoClientSweep") : CliSweep(d)
    \/ \E d \in DevChoice("CloseWrongEntry") : SrvFrame(d)
    \/ \E s \in Streams : SrvAck(s) \/ SrvCloseAck(s)
    \/ \E s \in Streams : \E d \in DevChoice("AckAfterHandlerStart") : HandlerStart(s, d)
    \/ SrvEOF
    \/ \E d \in (IF Poll THEN DevChoice("PollNoStreamSweep") ELSE {FALSE}) : SrvTeardown(d)

UserStep ==
    \/ \E s \in Streams : Open(s) \/ CliWrite(s) \/ CliWriteFail(s) \/ CliRead(s) \/ CliClose(s)
    \/ \E s \in Streams : Push(s) \/ SrvRead(s) \/ HandlerReturn(s)
    \/ Cut

Next == LibraryStep \/ UserStep
Spec == Init /\ [][Next]_vars
\* fairness: the library's steps, and users keep reading (a reader that never reads learns nothing)
LiveSpec == Spec /\ WF_vars(LibraryStep) /\ \A s \in Streams : WF_vars(CliRead(s)) /\ WF_vars(SrvRead(s)) /\ WF_vars(HandlerReturn(s))

--------------------------------------------------------------------------------
\* ============================ PROPERTIES =================================
IsPrefix(a, b) == Len(a) <= Len(b) /\ \A i \in 1..Len(a) : a[i] = b[i]
Written(s, d) == [n \in 1..(IF d = "s2c" THEN npush[s] ELSE nsent[s]) |-> Msg(s, d, n)]

\* ---- C09: every message exactly once, in order, to the right stream
ClientGetsPrefix == \A s \in Streams : IsPrefix(cgot[s], Written(s, "s2c"))
ServerGetsPrefix == \A s \in Streams : IsPrefix(sgot[s], Written(s, "c2s"))
\* nothing the handler wrote before the stream was closed or the connection cut is lost: once everything is
\* drained the counts agree
NoLoss ==
    \A s \in Streams :
        (~cut /\ ~cstop[s] /\ cph[s] = "streaming" /\ s2c = <<>> /\ cq[s] = <<>>) => Len(cgot[s]) = npush[s]
NoLossToServer ==
    \A s \in Streams :
        (~cut /\ ~sstop[s] /\ sreg[s] /\ c2s = <<>> /\ sq[s] = <<>>) => Len(sgot[s]) = nsent[s]
\* liveness: everything written is eventually read while the stream stays open
AllDelivered == \A s \in Streams : []((~cut /\ ~cstop[s]) => TRUE) /\ <>[](cut \/ cstop[s] \/ cph[s] # "streaming" \/ Len(cgot[s]) = npush[s])

\* ---- C10: close / connection loss unblocks both ends
\* once the connection is gone (both sides have finished their teardown) no read stays blocked and every handler can return
StreamsStoppedAfterLoss ==
    (creader = "swept" /\ steardown = "done") =>
        \A s \in Streams : (cph[s] # "none" => cstop[s]) /\ (sreg[s] => sstop[s])
HandlersReturn == \A s \in Streams : (hst[s] = "running" /\ steardown = "done") ~> (hst[s] = "returned")
ClosedStreamUnblocks == \A s \in Streams : (cph[s] \in {"stopping", "closing", "closed"}) ~> (sstop[s] \/ ~sreg[s] \/ cut)
\* closing one stream does not stop another
SiblingsUndisturbed ==
    [][\A s \in Streams : (~sstop[s] /\ sstop'[s]) =>
          (steardown' # "serving" \/ (c2s # <<>> /\ Head(c2s).k = "close" /\ Head(c2s).s = s))]_vars
================================================================================
