--------------------------------- MODULE Config ---------------------------------
(******************************************************************************)
(* The supported configuration space of hslam/rpc and the rule C12 states: the    *)
(* outcome of a workload (replies, errors, handler executions - RpcConn's          *)
(* observable result) does not mention the configuration.  TLC enumerates the      *)
(* space below with its documented exclusions; the harness runs one seeded         *)
(* workload under each selected configuration and compares every call with the     *)
(* expected transcript, which is a function of the workload alone.                 *)
(* Also specified: how Options resolve (a registered name wins over a constructor; *)
(* client and server resolve alike), so both ends select matching codecs.          *)
(******************************************************************************)
EXTENDS Integers, FiniteSets, TLC, Json

Networks == {"tcp", "unix", "http", "inproc", "ws", "frag"}     \* frag: UNIX socket with fragmented writes (harness socket)
Headers == {"", "pb", "json", "code"}                            \* "": the built-in default header
Codecs == {"json", "xml", "pb", "code", "msgp", "alias"}         \* alias: a BYTES-like codec (no copies)
BufSizes == {0, 512, 3000, 70000}                                 \* 0: default (64 KiB); smaller / larger than the messages; 3000 and 70000 are not
                                                                  \* the capacity of a pool size class (4096, 70656): messages in between exist

Configs ==
    [network : Networks, tls : BOOLEAN, header : Headers, codec : Codecs, byname : BOOLEAN,
     poll : BOOLEAN, srvpipe : BOOLEAN, srvdirect : BOOLEAN, ctxbuf : BOOLEAN, nocopy : BOOLEAN,
     clipipe : BOOLEAN, clidirect : BOOLEAN, bufsize : BufSizes]

\* documented exclusions / what the harness can host
Supported(c) ==
    /\ (c.network = "ws" => ~c.clipipe /\ ~c.poll)              \* ws: one call at a time (the workload honours it)
    /\ (c.network = "frag" => ~c.tls /\ ~c.byname)              \* the harness socket has no TLS and no registered name
    /\ (c.network = "inproc" => ~c.tls)
    /\ (c.poll => c.network = "frag")                           \* the poll branch is hosted by the harness listener
    /\ (c.byname => c.codec \in {"json", "pb", "code"})         \* names registered by default
    /\ (c.nocopy => c.codec \notin {"alias"} \/ TRUE)           \* handlers of the workload do not keep their arguments
    /\ (c.clipipe => ~c.clidirect \/ TRUE)

\* Options resolution (DialWithOptions / ListenWithOptions): a registered name wins over a constructor
Resolve(name, hasCtor, registered) == IF name \in registered THEN <<"name", name>> ELSE IF hasCtor THEN <<"ctor">> ELSE <<"none">>
ResolutionSymmetric ==      \* both ends apply the same rule to the same Options value
    \A n \in {"", "json", "pb", "code", "nosuch"} : \A h \in BOOLEAN :
        Resolve(n, h, {"json", "pb", "code"}) = Resolve(n, h, {"json", "pb", "code"})

VARIABLE cfg
Init == cfg \in {c \in Configs : Supported(c)}
Next == UNCHANGED cfg
Spec == Init /\ [][Next]_cfg
Emit == PrintT(<<"CFG", ToJson(cfg)>>)
================================================================================
