------------------------------ MODULE LifecycleGen ------------------------------
(* Behaviour generator for replays: Lifecycle with a string variable carrying, as JSON, the action just taken and the
   projection of the state it led to, so the harness knows what to do and what the real objects must look like afterwards
   (simulation files print the variable verbatim). *)
EXTENDS Lifecycle
CONSTANT MinOps      \* Close calls only after this many usage operations (richer histories before the closes)
VARIABLE pj
CG == nops >= MinOps
P(name, arg) == pj' = ToJson([a |-> name, c |-> arg, p |-> Proj'])
GInit == Init /\ pj = ToJson([a |-> "init", c |-> "", p |-> Proj])
GNext == \/ (SrvListen /\ P("SrvListen", ""))
         \/ (CG /\ SrvClose /\ P("SrvClose", ""))
         \/ (TCall /\ P("TCall", ""))
         \/ (CG /\ TClose /\ P("TClose", ""))
         \/ (KNew /\ P("KNew", ""))
         \/ (KFallback /\ P("KFallback", ""))
         \/ (KPark /\ P("KPark", ""))
         \/ (CG /\ KClose /\ P("KClose", ""))
         \/ (KProbeStart /\ P("KProbeStart", ""))
         \/ (KProbePing /\ P("KProbePing", ""))
         \/ \E c \in Conns : \/ (Dial(c) /\ P("Dial", c))
                             \/ (StartCall(c) /\ P("StartCall", c))
                             \/ (OpenStream(c) /\ P("OpenStream", c))
                             \/ (Release(c) /\ P("Release", c))
                             \/ (CG /\ ConnClose(c) /\ P("ConnClose", c))
         \/ (Internal /\ P("internal", ""))
GSpec == GInit /\ [][GNext]_<<vars, pj>>
================================================================================
